import BertE.Lemmas.QueueProcess
/-
Helper lemmas for C05, part 4: from "closed, green, contains every closed green selection" to the
explicit longest-green-prefix specification `Spec.prs`.
-/
namespace BertE.Queue
open List

/-! ### `longest` -/

namespace Spec

theorem longest_le (P : Nat → Bool) (b : Nat) : longest P b ≤ b := by
  induction b with
  | zero => simp [longest]
  | succ n ih =>
    simp only [longest]
    split
    · exact Nat.le_refl _
    · omega

theorem longest_spec (P : Nat → Bool) (b : Nat) (h0 : P 0 = true) : P (longest P b) = true := by
  induction b with
  | zero => simpa [longest] using h0
  | succ n ih =>
    simp only [longest]
    split
    · assumption
    · exact ih

theorem longest_max (P : Nat → Bool) (b n : Nat) (hn : n ≤ b) (hP : P n = true) : n ≤ longest P b := by
  induction b with
  | zero => omega
  | succ k ih =>
    simp only [longest]
    split
    · exact hn
    · rename_i hk
      by_cases he : n = k + 1
      · subst he; exact absurd hP hk
      · exact ih (by omega)

/-- nothing longer than `longest` (within the bound) has the property -/
theorem longest_none_longer (P : Nat → Bool) (b k : Nat) (hk : longest P b < k) (hkb : k ≤ b) :
    P k = false := by
  cases h : P k with
  | false => rfl
  | true => have := longest_max P b k hkb h; omega

theorem greenOn_nil (st : St) (v : Version) (l : List Nat) : greenOn st [] v l = true := by
  unfold greenOn newestIn
  have : l.find? (fun p => ([] : List Nat).contains p) = none := by
    apply find?_eq_none.mpr; intro x _; simp
  rw [this]

theorem mainGreen_zero (q : Queues) (st : St) : mainGreen q st 0 = true := by
  unfold mainGreen
  apply all_eq_true.mpr
  intro e _
  rw [take_zero, greenOn_nil]; simp

theorem hotfixGreen_zero (st : St) (v : Version) (l : List Nat) : hotfixGreen st v l 0 = true := by
  unfold hotfixGreen; rw [take_zero, greenOn_nil]

/-- `greenOn` says: the newest selected entry of the queue, if any, is SUCCESSFUL -/
theorem greenOn_iff (st : St) (g : List Nat) (v : Version) (l : List Nat) :
    greenOn st g v l = true ↔ ∀ p, (l.filter fun p => g.contains p).head? = some p → st p v = .successful := by
  unfold greenOn newestIn
  rw [head?_filter]
  cases l.find? (fun p => g.contains p) with
  | none => simp
  | some p => simp

end Spec

/-! ### cuts of one queue -/

theorem rev_take_of_suffix {t L : List Nat} (h : t <:+ L) : L.reverse.take t.length = t.reverse := by
  have := prefix_iff_eq_take.mp (reverse_prefix.mpr h)
  rw [length_reverse] at this
  exact this.symm

theorem take_rev_eq (L : List Nat) (n : Nat) : L.reverse.take n = (L.drop (L.length - n)).reverse :=
  take_reverse

theorem mem_take_rev {L : List Nat} {n : Nat} {p : Nat} :
    p ∈ L.reverse.take n ↔ p ∈ L.drop (L.length - n) := by
  rw [take_rev_eq, mem_reverse]

theorem length_take_rev {L : List Nat} {n : Nat} (h : n ≤ L.length) : (L.reverse.take n).length = n := by
  rw [length_take, length_reverse]; omega

theorem nodup_take_rev {L : List Nat} (h : L.Nodup) (n : Nat) : (L.reverse.take n).Nodup :=
  (nodup_reverse' h).sublist (take_sublist _ _)

/-- cutting a duplicate-free queue at `n`, then restricting a sub-queue to the cut, leaves a suffix of
    the sub-queue -/
theorem filter_cut_suffix {l L : List Nat} (hs : l <+ L) (hn : L.Nodup) (n : Nat) :
    l.filter (fun p => (L.reverse.take n).contains p) <:+ l := by
  apply filter_suffix_of_sublist hs hn (drop_suffix (L.length - n) L)
  intro p _
  rw [contains_iff_mem, mem_take_rev]

/-! ### the fixed point is the specification -/

section spec
variable {q : Queues} {paths : List (List Version)} {st : St} {m : List Nat}

theorem main_filter_suffix (hi : Inv q st m) :
    (mainList q).filter (fun p => m.contains p) <:+ mainList q := by
  cases hg : greatestDev q with
  | none => rw [mainList_eq_nil_of_none hg]; simp
  | some g => rw [mainList_eq_of_greatestDev hg]; exact hi.closed g

/-- the canonical listing is a cut -/
theorem canon_eq_cut (h : WFQ q paths) (hi : Inv q st m) :
    m = Spec.cut q (fun _ l => (l.filter fun p => m.contains p).length)
      ((mainList q).filter fun p => m.contains p).length := by
  have hc := hi.canon
  unfold canon at hc
  unfold Spec.cut mainOrder
  rw [rev_take_of_suffix (main_filter_suffix hi)]
  have : ((q.filter fun e => isHotfix e.1).flatMap fun e => (e.2.filter fun p => m.contains p).reverse)
      = (q.filter fun e => isHotfix e.1).flatMap fun e =>
          e.2.reverse.take (e.2.filter fun p => m.contains p).length := by
    apply flatMap_congr'
    intro e he
    have heq : e.2 = listOf q e.1 := (subColl_refl h).snd_eq (mem_filter.mp he).1
    have hsuf : e.2.filter (fun p => m.contains p) <:+ e.2 := by
      have := hi.closed e.1
      unfold sel at this
      rw [← heq] at this; exact this
    exact (rev_take_of_suffix hsuf).symm
  rw [← this]; exact hc

/-- restricted to a development / stabilization queue, "in the cut of the main queue" is "in `m`" -/
theorem main_cut_mem (hi : Inv q st m) {p : Nat} (hp : p ∈ mainList q) :
    p ∈ (mainOrder q).take ((mainList q).filter fun p => m.contains p).length ↔ p ∈ m := by
  unfold mainOrder
  rw [rev_take_of_suffix (main_filter_suffix hi), mem_reverse, mem_filter, contains_iff_mem]
  exact ⟨fun h' => h'.2, fun h' => ⟨hp, h'⟩⟩

theorem mainGreen_of_green (h : WFQ q paths) (hi : Inv q st m) (hg : GreenClosed q st m) :
    Spec.mainGreen q st ((mainList q).filter fun p => m.contains p).length = true := by
  unfold Spec.mainGreen
  apply all_eq_true.mpr
  intro e he
  by_cases hh : isHotfix e.1 = true
  · simp [hh]
  · have hh' : isHotfix e.1 = false := by simpa using hh
    simp only [hh', Bool.false_or]
    rw [Spec.greenOn_iff]
    intro p hhead
    have heq : e.2 = listOf q e.1 := (subColl_refl h).snd_eq he
    have hfil : e.2.filter (fun p =>
        ((mainOrder q).take ((mainList q).filter fun p => m.contains p).length).contains p)
        = sel q m e.1 := by
      unfold sel; rw [← heq]
      apply filter_congr
      intro x hx
      have hxm : x ∈ mainList q := (h.sublist_main hh').subset (heq ▸ hx)
      have := main_cut_mem hi hxm
      rw [← contains_iff_mem, ← contains_iff_mem (as := m)] at this
      exact Bool.eq_iff_iff.mpr this
    rw [hfil] at hhead
    exact hg.green e.1 p hhead

/-- the cut of the main queue at `n`, as a selection, is closed; it is green when `mainGreen n` -/
theorem greenClosed_main_cut (h : WFQ q paths) (n : Nat) (hgreen : Spec.mainGreen q st n = true) :
    GreenClosed q st ((mainOrder q).take n) := by
  have hsel_hf : ∀ v, isHotfix v = true → sel q ((mainOrder q).take n) v = [] := by
    intro v hv
    unfold sel
    apply filter_eq_nil_iff.mpr
    intro p hp hc
    have : p ∈ (mainOrder q).take n := contains_iff_mem.mp hc
    have : p ∈ mainList q := mem_reverse.mp (mem_of_mem_take this)
    exact h.hotfix_not_main hv hp this
  constructor
  · intro v
    by_cases hv : isHotfix v = true
    · rw [hsel_hf v hv]; exact nil_suffix
    · unfold sel mainOrder
      exact filter_cut_suffix (h.sublist_main (by simpa using hv)) h.main_nodup n
  · intro v p hhead
    by_cases hv : isHotfix v = true
    · rw [hsel_hf v hv] at hhead; cases hhead
    · have hv' : isHotfix v = false := by simpa using hv
      have hp : p ∈ sel q ((mainOrder q).take n) v := mem_of_mem_head? hhead
      have hmem : (v, listOf q v) ∈ q := mem_of_mem_listOf (mem_sel.mp hp).1
      unfold Spec.mainGreen at hgreen
      have := all_eq_true.mp hgreen _ hmem
      simp only [hv', Bool.false_or] at this
      exact (Spec.greenOn_iff st _ v _).mp this p hhead

theorem main_cut_eq (h : WFQ q paths) (hi : Inv q st m) (hg : GreenClosed q st m) :
    ((mainList q).filter fun p => m.contains p).length = Spec.mainN q st := by
  apply Nat.le_antisymm
  · apply Spec.longest_max
    · unfold mainOrder; rw [length_reverse]; exact length_filter_le _ _
    · exact mainGreen_of_green h hi hg
  · -- the specification's cut is closed and green, hence inside `m`
    have hle : Spec.mainN q st ≤ (mainOrder q).length := Spec.longest_le _ _
    have hgc := greenClosed_main_cut (st := st) h (Spec.mainN q st)
      (Spec.longest_spec _ _ (Spec.mainGreen_zero q st))
    have hsub : ∀ p ∈ (mainOrder q).take (Spec.mainN q st),
        p ∈ (mainList q).filter fun p => m.contains p := by
      intro p hp
      have hpm : p ∈ mainList q := mem_reverse.mp (mem_of_mem_take hp)
      refine mem_filter.mpr ⟨hpm, contains_iff_mem.mpr ?_⟩
      cases hgd : greatestDev q with
      | none => rw [mainList_eq_nil_of_none hgd] at hpm; simp at hpm
      | some g =>
        rw [mainList_eq_of_greatestDev hgd] at hpm
        exact hi.above _ hgc g p (mem_sel.mpr ⟨hpm, hp⟩)
    have hlen := length_le_of_subset_of_nodup (nodup_take_rev h.main_nodup _) hsub
    unfold mainOrder at hlen hle
    rw [length_take_rev (by rw [length_reverse] at hle; exact hle)] at hlen
    exact hlen

/-- the cut of the hotfix queue `e` at `n`, as a selection, is closed; green when `hotfixGreen n` -/
theorem greenClosed_hotfix_cut (h : WFQ q paths) {e : Version × List Nat} (he : e ∈ q)
    (hh : isHotfix e.1 = true) (n : Nat) (hgreen : Spec.hotfixGreen st e.1 e.2 n = true) :
    GreenClosed q st (e.2.reverse.take n) := by
  have heq : e.2 = listOf q e.1 := (subColl_refl h).snd_eq he
  have hother : ∀ v, v ≠ e.1 → sel q (e.2.reverse.take n) v = [] := by
    intro v hv
    unfold sel
    apply filter_eq_nil_iff.mpr
    intro p hp hc
    have : p ∈ e.2 := mem_reverse.mp (mem_of_mem_take (contains_iff_mem.mp hc))
    rw [heq] at this
    exact hv (h.eq_of_mem_hotfix (Or.inr hh) hp this)
  constructor
  · intro v
    by_cases hv : v = e.1
    · subst hv
      unfold sel; rw [← heq]
      exact filter_cut_suffix (Sublist.refl _) (h.nodup e he) n
    · rw [hother v hv]; exact nil_suffix
  · intro v p hhead
    by_cases hv : v = e.1
    · subst hv
      unfold Spec.hotfixGreen at hgreen
      unfold sel at hhead; rw [← heq] at hhead
      exact (Spec.greenOn_iff st _ _ _).mp hgreen p hhead
    · rw [hother v hv] at hhead; cases hhead

theorem hotfix_cut_eq (h : WFQ q paths) (hi : Inv q st m) (hg : GreenClosed q st m)
    {e : Version × List Nat} (he : e ∈ q) (hh : isHotfix e.1 = true) :
    (e.2.filter fun p => m.contains p).length = Spec.hotfixN st e.1 e.2 := by
  have heq : e.2 = listOf q e.1 := (subColl_refl h).snd_eq he
  have hsuf : e.2.filter (fun p => m.contains p) <:+ e.2 := by
    have := hi.closed e.1
    unfold sel at this
    rw [← heq] at this; exact this
  apply Nat.le_antisymm
  · apply Spec.longest_max
    · exact length_filter_le _ _
    · unfold Spec.hotfixGreen
      rw [Spec.greenOn_iff]
      intro p hhead
      have hfil : e.2.filter (fun p =>
          (e.2.reverse.take (e.2.filter fun p => m.contains p).length).contains p) = sel q m e.1 := by
        unfold sel; rw [← heq]
        apply filter_congr
        intro x hx
        rw [rev_take_of_suffix hsuf]
        apply Bool.eq_iff_iff.mpr
        rw [contains_iff_mem, mem_reverse, mem_filter]
        exact ⟨fun h' => h'.2, fun h' => ⟨hx, h'⟩⟩
      rw [hfil] at hhead
      exact hg.green e.1 p hhead
  · have hle : Spec.hotfixN st e.1 e.2 ≤ e.2.length := Spec.longest_le _ _
    have hgc := greenClosed_hotfix_cut (st := st) h he hh (Spec.hotfixN st e.1 e.2)
      (Spec.longest_spec _ _ (Spec.hotfixGreen_zero st e.1 e.2))
    have hsub : ∀ p ∈ e.2.reverse.take (Spec.hotfixN st e.1 e.2),
        p ∈ e.2.filter fun p => m.contains p := by
      intro p hp
      have hpe : p ∈ e.2 := mem_reverse.mp (mem_of_mem_take hp)
      refine mem_filter.mpr ⟨hpe, contains_iff_mem.mpr ?_⟩
      exact hi.above _ hgc e.1 p (mem_sel.mpr ⟨heq ▸ hpe, hp⟩)
    have hlen := length_le_of_subset_of_nodup (nodup_take_rev (h.nodup e he) _) hsub
    rw [length_take_rev hle] at hlen
    exact hlen

/-- **The fixed point of the loop is the longest green prefix.** -/
theorem fixed_eq_spec (h : WFQ q paths) (hi : Inv q st m) (hg : GreenClosed q st m) :
    m = Spec.prs q st := by
  have hcut := canon_eq_cut h hi
  unfold Spec.prs
  rw [← main_cut_eq h hi hg]
  have : Spec.cut q (fun _ l => (l.filter fun p => m.contains p).length)
      ((mainList q).filter fun p => m.contains p).length
      = Spec.cut q (Spec.hotfixN st) ((mainList q).filter fun p => m.contains p).length := by
    unfold Spec.cut
    congr 1
    apply flatMap_congr'
    intro e he
    have := mem_filter.mp he
    show take (filter (fun p => m.contains p) e.2).length e.2.reverse = _
    rw [hotfix_cut_eq h hi hg this.1 this.2]
  rw [← this]; exact hcut

/-- with `force_merge` the whole queue is taken -/
theorem extract_eq_all (h : WFQ q paths) : extractPrIds q = Spec.allPrs q := by
  rw [(subColl_refl h).clean h]
  unfold Spec.allPrs Spec.cut hfPart mainOrder
  rw [take_of_length_le (Nat.le_refl _)]
  congr 1
  apply flatMap_congr'
  intro e _
  rw [take_of_length_le (by rw [length_reverse]; exact Nat.le_refl _)]

theorem head?_dropWhile_eq_find? (l : List Nat) (P : Nat → Bool) :
    (l.dropWhile fun p => !P p).head? = l.find? P := by
  induction l with
  | nil => rfl
  | cons a t ih =>
    rw [dropWhile_cons, find?_cons]
    cases h : P a <;> simp [ih]

end spec

theorem mem_cut (q : Queues) (nh : Version → List Nat → Nat) (n p : Nat) :
    p ∈ Spec.cut q nh n ↔
      (∃ e ∈ q, isHotfix e.1 = true ∧ p ∈ e.2.reverse.take (nh e.1 e.2)) ∨ p ∈ (mainOrder q).take n := by
  unfold Spec.cut
  simp only [mem_append, mem_flatMap, mem_filter]
  constructor
  · rintro (⟨e, ⟨he, hh⟩, hp⟩ | hp)
    · exact Or.inl ⟨e, he, hh, hp⟩
    · exact Or.inr hp
  · rintro (⟨e, he, hh, hp⟩ | hp)
    · exact Or.inl ⟨e, ⟨he, hh⟩, hp⟩
    · exact Or.inr hp

/-- The cut of a hotfix queue depends on the statuses of that queue's own commits only. -/
theorem hotfixN_congr (st st' : St) (v : Version) (l : List Nat) (hst : ∀ p ∈ l, st p v = st' p v) :
    Spec.hotfixN st v l = Spec.hotfixN st' v l := by
  unfold Spec.hotfixN
  have : Spec.hotfixGreen st v l = Spec.hotfixGreen st' v l := by
    funext n
    unfold Spec.hotfixGreen Spec.greenOn Spec.newestIn
    cases hf : l.find? (fun p => (l.reverse.take n).contains p) with
    | none => rfl
    | some p => simp only; rw [hst p (mem_of_find?_eq_some hf)]
  rw [this]


end BertE.Queue
