import BertE.Lemmas.CascadeMain
/- `get_merge_paths` on the final cascade = the declarative merge paths. -/
namespace BertE.Cascade
open Spec

/-! ### closed form of the fold -/

def devsOf (c : Cascade) : List Branch := c.flatMap devBranch

/-- the branches a path starts from on the line `p`: hotfix first, then stabilization -/
def startsOf (p : Key × BranchSet) : List Branch :=
  if p.2.dev.isSome then hfBranch p ++ stbBranch p.2 else []

def pathsFrom : Cascade → List (List Branch)
  | [] => []
  | p :: c => (startsOf p).map (fun s => s :: (devBranch p ++ devsOf c)) ++ pathsFrom c

def pathStep (ret : List (List Branch)) (p : Key × BranchSet) : List (List Branch) :=
  match p.2.dev with
  | none => ret
  | some d =>
    let ret := match p.2.hf with
      | some h => ret ++ [[h.toBranch]]
      | none => ret
    let ret := match p.2.stb with
      | some s => ret ++ [[s.toBranch]]
      | none => ret
    ret.map (· ++ [d.toBranch])

theorem foldl_pathStep (c : Cascade) : ∀ ret : List (List Branch),
    c.foldl pathStep ret = ret.map (· ++ devsOf c) ++ pathsFrom c := by
  induction c with
  | nil => intro ret; simp [devsOf, pathsFrom]
  | cons p c ih =>
    intro ret
    rw [List.foldl_cons, ih]
    obtain ⟨k, dev, stb, hf⟩ := p
    cases dev <;> cases stb <;> cases hf <;>
      simp [pathStep, devsOf, pathsFrom, startsOf, devBranch, hfBranch, stbBranch, List.map_append]

theorem mergePaths_closed (c : Cascade) : mergePaths c = devsOf c :: pathsFrom c := by
  have : mergePaths c = c.foldl pathStep [[]] := rfl
  rw [this, foldl_pathStep]
  simp

/-! ### every path is its start followed by the development branches from its line on -/

def startsAll (c : Cascade) : List Branch := c.flatMap startsOf

theorem pathsFrom_eq {c : Cascade} (hs : Sorted c) (hkd : ∀ p ∈ c, ∀ b ∈ devBranch p, b.key = p.1)
    (hks : ∀ p ∈ c, ∀ b ∈ startsOf p, b.key = p.1) :
    pathsFrom c = (startsAll c).map fun s => s :: (devsOf c).filter fun b => decide (keyLe s.key b.key) := by
  induction c with
  | nil => rfl
  | cons p c ih =>
    rw [Sorted, List.pairwise_cons] at hs
    have ih' := ih hs.2 (fun q hq => hkd q (List.mem_cons_of_mem _ hq))
      (fun q hq => hks q (List.mem_cons_of_mem _ hq))
    simp only [pathsFrom, startsAll, List.flatMap_cons, List.map_append]
    have hdc : ∀ b ∈ devsOf c, keyLt p.1 b.key := by
      intro b hb
      obtain ⟨q, hq, hbq⟩ := List.mem_flatMap.mp hb
      rw [hkd q (List.mem_cons_of_mem _ hq) b hbq]
      exact hs.1 q hq
    congr 1
    · apply List.map_congr_left
      intro s hsm
      have hsk := hks p List.mem_cons_self s hsm
      congr 1
      show _ = (devsOf (p :: c)).filter _
      have : devsOf (p :: c) = devBranch p ++ devsOf c := by simp [devsOf]
      rw [this, List.filter_append, hsk]
      congr 1
      · symm; rw [List.filter_eq_self]
        intro b hb
        rw [hkd p List.mem_cons_self b hb]
        simp [keyLe_refl]
      · symm; rw [List.filter_eq_self]
        intro b hb
        simp only [decide_eq_true_eq]
        exact Or.inr (hdc b hb)
    · rw [ih']
      apply List.map_congr_left
      intro s hsm
      obtain ⟨q, hq, hsq⟩ := List.mem_flatMap.mp hsm
      have hsk := hks q (List.mem_cons_of_mem _ hq) s hsq
      congr 1
      have : devsOf (p :: c) = devBranch p ++ devsOf c := by simp [devsOf]
      rw [this, List.filter_append]
      have : (devBranch p).filter (fun b => decide (keyLe s.key b.key)) = [] := by
        rw [List.filter_eq_nil_iff]
        intro b hb
        rw [hkd p List.mem_cons_self b hb, hsk]
        simp only [decide_eq_true_eq]
        exact not_keyLe_iff.mpr (hs.1 q hq)
      rw [this, List.nil_append]

/-! ### the starts are the sorted stabilization / destination hotfix branches whose line has its development branch -/

def startLe (a b : Branch) : Bool :=
  decide (keyLt a.key b.key) || (a.key == b.key && (a.isHotfix || !b.isHotfix))

theorem startLe_trans (a b c : Branch) (h1 : startLe a b = true) (h2 : startLe b c = true) : startLe a c = true := by
  simp only [startLe, Bool.or_eq_true, decide_eq_true_eq, Bool.and_eq_true, beq_iff_eq, Bool.not_eq_true'] at *
  rcases h1 with h1 | ⟨e1, h1⟩ <;> rcases h2 with h2 | ⟨e2, h2⟩
  · exact Or.inl (keyLt_trans h1 h2)
  · exact Or.inl (e2 ▸ h1)
  · exact Or.inl (e1 ▸ h2)
  · right
    refine ⟨e1.trans e2, ?_⟩
    rcases h1 with h1 | h1
    · exact Or.inl h1
    · rcases h2 with h2 | h2
      · rw [h1] at h2; cases h2
      · exact Or.inr h2

theorem startLe_total (a b : Branch) : (startLe a b || startLe b a) = true := by
  simp only [startLe, Bool.or_eq_true, decide_eq_true_eq, Bool.and_eq_true, beq_iff_eq, Bool.not_eq_true']
  rcases keyLt_total a.key b.key with h | h | h
  · exact Or.inl (Or.inl h)
  · cases ha : a.isHotfix
    · exact Or.inr (Or.inr ⟨h.symm, Or.inr rfl⟩)
    · exact Or.inl (Or.inr ⟨h, Or.inl rfl⟩)
  · exact Or.inr (Or.inl h)

theorem pairwise_flatMap_gen {c : Cascade} {R : Branch → Branch → Prop} (hs : Sorted c)
    (g : Key × BranchSet → List Branch) (hk : ∀ p ∈ c, ∀ b ∈ g p, b.key = p.1)
    (hin : ∀ p ∈ c, (g p).Pairwise R) (hR : ∀ a b, keyLt a.key b.key → R a b) :
    (c.flatMap g).Pairwise R := by
  induction c with
  | nil => simp
  | cons p c ih =>
    rw [Sorted, List.pairwise_cons] at hs
    rw [List.flatMap_cons, List.pairwise_append]
    refine ⟨hin p List.mem_cons_self, ih hs.2 (fun q hq => hk q (List.mem_cons_of_mem _ hq))
      (fun q hq => hin q (List.mem_cons_of_mem _ hq)), ?_⟩
    intro a ha b hb
    obtain ⟨q, hq, hbq⟩ := List.mem_flatMap.mp hb
    apply hR
    rw [hk p List.mem_cons_self a ha, hk q (List.mem_cons_of_mem _ hq) b hbq]
    exact hs.1 q hq

section
variable {bs : List Branch} {tags : List Tag} {dst : Branch} {c1 : Cascade}

theorem mem_hfBranch {q : Key × BranchSet} (h : Fin3 bs tags dst c1 q) (s : Branch) :
    s ∈ hfBranch q ↔ s = dst ∧ dst.isHotfix = true ∧ dst ∈ bs ∧ dst.key = q.1 := by
  unfold hfBranch
  rw [h.hf]
  cases dst with
  | dev M m => simp [hfSlot, Branch.isHotfix]
  | stab M m u => simp [hfSlot, Branch.isHotfix]
  | hotfix M m u =>
    rw [hfSlot_hotfix]
    by_cases hc : (M, some m) = q.1 ∧ Branch.hotfix M m u ∈ bs
    · simp only [hc, and_self, if_true, Option.map_some, Option.toList_some, List.mem_singleton,
        Branch.isHotfix, Branch.key, true_and, and_true]
      constructor
      · rintro rfl; rfl
      · rintro rfl; rfl
    · simp only [hc, if_false, Option.map_none, Option.toList_none, List.not_mem_nil, false_iff, Branch.isHotfix,
        Branch.key, true_and]
      rintro ⟨_, h1, h2⟩
      exact hc ⟨h2, h1⟩

theorem startsOf_key {q : Key × BranchSet} (h : Fin3 bs tags dst c1 q) : ∀ b ∈ startsOf q, b.key = q.1 := by
  intro b hb
  unfold startsOf at hb
  split at hb
  · rcases List.mem_append.mp hb with hb | hb
    · obtain ⟨rfl, _, _, hk⟩ := (mem_hfBranch h b).mp hb
      exact hk
    · exact stbBranch_key h b hb
  · cases hb

theorem mem_startsOf {q : Key × BranchSet} (h : Fin3 bs tags dst c1 q)
    (hone : ∀ M m u u', Branch.stab M m u ∈ bs → Branch.stab M m u' ∈ bs → u = u') (s : Branch) :
    s ∈ startsOf q ↔ s.key = q.1 ∧ s ∈ bs ∧ (s.isStab = true ∨ (s.isHotfix = true ∧ s = dst)) ∧
      Branch.dev s.key.1 s.key.2 ∈ bs := by
  have hdev : q.2.dev.isSome = true ↔ Branch.dev q.1.1 q.1.2 ∈ bs := by
    rw [h.dev]; split <;> simp_all
  unfold startsOf
  constructor
  · intro hs
    split at hs
    · rename_i hd
      rcases List.mem_append.mp hs with hs | hs
      · obtain ⟨rfl, h1, h2, hk⟩ := (mem_hfBranch h s).mp hs
        exact ⟨hk, h2, Or.inr ⟨h1, rfl⟩, by rw [hk]; exact hdev.mp hd⟩
      · obtain ⟨h1, h2, hk⟩ := (mem_stbBranch h hone s).mp hs
        exact ⟨hk, h2, Or.inl h1, by rw [hk]; exact hdev.mp hd⟩
    · cases hs
  · rintro ⟨hk, hb, hkind, hd⟩
    rw [hk] at hd
    rw [if_pos (hdev.mpr hd)]
    rcases hkind with h1 | ⟨h1, rfl⟩
    · exact List.mem_append.mpr (Or.inr ((mem_stbBranch h hone s).mpr ⟨h1, hb, hk⟩))
    · exact List.mem_append.mpr (Or.inl ((mem_hfBranch h s).mpr ⟨rfl, h1, hb, hk⟩))

end

theorem startsAll_eq {bs : List Branch} {dst : Branch} {c0 : Cascade} (r : Rep bs dst c0) (hnd : bs.Nodup)
    (tags : List Tag) : startsAll (c3of tags c0) = pathStarts bs dst := by
  have hs := c3_sorted r tags
  have hF := c3_entries r tags
  have hmem : ∀ s, s ∈ startsAll (c3of tags c0) ↔
      s ∈ bs.filter (fun b => (b.isStab || (b.isHotfix && b == dst)) && bs.contains (.dev b.key.1 b.key.2)) := by
    intro s
    unfold startsAll
    rw [List.mem_flatMap, List.mem_filter]
    simp only [Bool.and_eq_true, Bool.or_eq_true, beq_iff_eq, List.contains_eq_mem, decide_eq_true_eq]
    constructor
    · rintro ⟨q, hq, hsq⟩
      obtain ⟨_, h2, h3, h4⟩ := (mem_startsOf (hF q hq) r.oneStab s).mp hsq
      exact ⟨h2, h3, h4⟩
    · rintro ⟨h2, h3, h4⟩
      have hsk : hotfixSkipped dst s = false := by
        rcases h3 with h3 | ⟨_, rfl⟩
        · cases s <;> simp_all [hotfixSkipped, Branch.isStab]
        · exact hotfixSkipped_self_or _
      obtain ⟨q, hq, hqk⟩ := c3_keys r tags s h2 hsk
      exact ⟨q, hq, (mem_startsOf (hF q hq) r.oneStab s).mpr ⟨hqk.symm, h2, h3, h4⟩⟩
  have hkeys : ∀ p ∈ c3of tags c0, ∀ b ∈ startsOf p, b.key = p.1 := fun p hp => startsOf_key (hF p hp)
  have hkind : ∀ p ∈ c3of tags c0, ∀ b ∈ startsOf p, b.isStab = true ∨ (b.isHotfix = true ∧ b = dst) := by
    intro p hp b hb
    exact ((mem_startsOf (hF p hp) r.oneStab b).mp hb).2.2.1
  have hndl : (startsAll (c3of tags c0)).Nodup := by
    apply nodup_flatMap_keys hs _ hkeys
    intro p _
    unfold startsOf hfBranch stbBranch
    split
    · cases p.2.hf <;> cases p.2.stb <;> simp [HfB.toBranch, StabB.toBranch]
    · simp
  have hperm : (startsAll (c3of tags c0)).Perm (pathStarts bs dst) := by
    unfold pathStarts
    refine ((List.perm_ext_iff_of_nodup hndl (hnd.sublist List.filter_sublist)).mpr hmem).trans ?_
    exact (List.mergeSort_perm _ _).symm
  have hpw1 : (startsAll (c3of tags c0)).Pairwise (fun a b => startLe a b = true) := by
    apply pairwise_flatMap_gen hs _ hkeys
    · intro p hp
      have hk := hkeys p hp
      unfold startsOf hfBranch stbBranch at hk ⊢
      split
      · rename_i hd
        simp only [hd, if_true] at hk
        cases hh : p.2.hf <;> cases hst : p.2.stb <;> simp [hh, hst] at hk ⊢
        simp [startLe, HfB.toBranch, StabB.toBranch, Branch.isHotfix, Branch.key] at hk ⊢
        right
        have e := hk.1.trans hk.2.symm
        simp only [Prod.mk.injEq, Option.some.injEq] at e
        exact e
      · simp
    · intro a b h
      simp [startLe, h]
  have hpw2 : (pathStarts bs dst).Pairwise (fun a b => startLe a b = true) := by
    unfold pathStarts
    exact List.pairwise_mergeSort startLe_trans startLe_total _
  refine List.Perm.eq_of_pairwise (le := fun (a b : Branch) => startLe a b = true) ?_ hpw1 hpw2 hperm
  intro a b ha hb hab hba
  have hb' : b ∈ startsAll (c3of tags c0) := hperm.mem_iff.mpr hb
  obtain ⟨pa, hpa, haq⟩ := List.mem_flatMap.mp ha
  obtain ⟨pb, hpb, hbq⟩ := List.mem_flatMap.mp hb'
  have hka := hkind pa hpa a haq
  have hkb := hkind pb hpb b hbq
  have hma := (mem_startsOf (hF pa hpa) r.oneStab a).mp haq
  have hmb := (mem_startsOf (hF pb hpb) r.oneStab b).mp hbq
  simp only [startLe, Bool.or_eq_true, decide_eq_true_eq, Bool.and_eq_true, beq_iff_eq, Bool.not_eq_true'] at hab hba
  have hkeq : a.key = b.key := by
    rcases hab with h | ⟨h, _⟩
    · rcases hba with h' | ⟨h', _⟩
      · exact (keyLt_asymm h h').elim
      · rw [h'] at h; exact (keyLt_irrefl _ h).elim
    · exact h
  have hab' : a.isHotfix = true ∨ b.isHotfix = false := by
    rcases hab with h | ⟨_, h⟩
    · rw [hkeq] at h; exact (keyLt_irrefl _ h).elim
    · exact h
  have hba' : b.isHotfix = true ∨ a.isHotfix = false := by
    rcases hba with h | ⟨_, h⟩
    · rw [hkeq] at h; exact (keyLt_irrefl _ h).elim
    · exact h
  rcases hka with ha1 | ⟨ha1, ha2⟩ <;> rcases hkb with hb1 | ⟨hb1, hb2⟩
  · cases a with
    | stab M m u =>
      cases b with
      | stab M' m' u' =>
        simp only [Branch.key, Prod.mk.injEq, Option.some.injEq] at hkeq
        obtain ⟨rfl, rfl⟩ := hkeq
        rw [r.oneStab _ _ _ _ hma.2.1 hmb.2.1]
      | dev M' m' => simp [Branch.isStab] at hb1
      | hotfix M' m' u' => simp [Branch.isStab] at hb1
    | dev M m => simp [Branch.isStab] at ha1
    | hotfix M m u => simp [Branch.isStab] at ha1
  · exfalso
    cases a <;> cases b <;> simp_all [Branch.isStab, Branch.isHotfix]
  · exfalso
    cases a <;> cases b <;> simp_all [Branch.isStab, Branch.isHotfix]
  · rw [ha2, hb2]

theorem mergePaths_spec {bs : List Branch} {dst : Branch} {c0 : Cascade} (r : Rep bs dst c0) (hnd : bs.Nodup)
    (hdst : dst ∈ bs) (tags : List Tag) : mergePaths (c3of tags c0) = Spec.mergePaths bs dst := by
  have hs := c3_sorted r tags
  have hF := c3_entries r tags
  have hdevs : devsOf (c3of tags c0) = allDevs bs := by
    unfold devsOf allDevs
    have := flatMap_dev_eq_sort hnd (c3of tags c0) hs hF (fun _ => true)
      (fun b hb hd _ => c3_keys r tags b hb (by cases b <;> simp_all [hotfixSkipped, Branch.isDev]))
      (fun _ _ => rfl)
    rw [this]
    congr 1
    apply List.filter_congr
    intro b _
    simp
  rw [mergePaths_closed, pathsFrom_eq hs (fun p hp => devBranch_key (hF p hp)) (fun p hp => startsOf_key (hF p hp)),
    startsAll_eq r hnd tags, hdevs]
  rfl

end BertE.Cascade
