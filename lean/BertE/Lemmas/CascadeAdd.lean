import BertE.Lemmas.CascadeOrder
/- Phase 1: `add_branch` over the discovered branches builds the sorted cascade of the lines of the
   repository, one object per slot; it fails exactly on two stabilization branches for one line. -/
namespace BertE.Cascade
open Spec

/-! ### `get?` and `setAt` -/

theorem get?_mem {c : Cascade} {k : Key} {s : BranchSet} (h : get? c k = some s) : (k, s) ∈ c := by
  unfold get? at h
  cases hf : c.find? (fun p => p.1 == k) with
  | none => simp [hf] at h
  | some p =>
    simp only [hf, Option.map_some, Option.some.injEq] at h
    have hk := List.find?_some hf
    have hm := List.mem_of_find?_eq_some hf
    simp only [beq_iff_eq] at hk
    subst h
    rw [← hk]
    exact hm

theorem get?_none {c : Cascade} {k : Key} : get? c k = none ↔ ∀ p ∈ c, p.1 ≠ k := by
  unfold get?
  simp only [Option.map_eq_none_iff, List.find?_eq_none, beq_iff_eq]

theorem get?_of_mem {c : Cascade} (hs : Sorted c) {k : Key} {s : BranchSet} (h : (k, s) ∈ c) :
    get? c k = some s := by
  cases hg : get? c k with
  | none => exact absurd rfl (get?_none.mp hg _ h)
  | some s' =>
    have := hs.eq_of_mem (get?_mem hg) h rfl
    simp only [Prod.mk.injEq, true_and] at this
    rw [this]

theorem mem_setAt {c : Cascade} {k : Key} {f : BranchSet → BranchSet} {q : Key × BranchSet} :
    q ∈ setAt c k f ↔ ∃ p ∈ c, q = (if p.1 = k then (p.1, f p.2) else p) := by
  unfold setAt
  simp only [List.mem_map]
  constructor
  · rintro ⟨p, hp, rfl⟩; exact ⟨p, hp, rfl⟩
  · rintro ⟨p, hp, rfl⟩; exact ⟨p, hp, rfl⟩

theorem setAt_keys (c : Cascade) (k : Key) (f : BranchSet → BranchSet) :
    (setAt c k f).map (·.1) = c.map (·.1) := by
  unfold setAt
  rw [List.map_map]
  apply List.map_congr_left
  intro p _
  by_cases h : p.1 = k <;> simp [h]

theorem sorted_iff_keys {c c' : Cascade} (h : c'.map (·.1) = c.map (·.1)) : Sorted c' ↔ Sorted c := by
  unfold Sorted
  rw [← List.pairwise_map (f := fun p : Key × BranchSet => p.1) (R := keyLt),
      ← List.pairwise_map (f := fun p : Key × BranchSet => p.1) (R := keyLt), h]

theorem Sorted.setAt {c : Cascade} (h : Sorted c) (k : Key) (f : BranchSet → BranchSet) :
    Sorted (setAt c k f) := (sorted_iff_keys (setAt_keys c k f)).mpr h

/-! ### what a cascade that holds the branches `S` looks like -/

def freshDev (k : Key) : DevB := ⟨k.1, k.2, -1, -1, false⟩

/-- the hotfix slot of the line `k`: only the destination hotfix branch enters -/
def hfSlot (S : List Branch) (dst : Branch) (k : Key) : Option HfB :=
  match dst with
  | .hotfix M m u => if (M, some m) = k ∧ dst ∈ S then some ⟨M, m, u, -1⟩ else none
  | _ => none

theorem hfSlot_hotfix (S : List Branch) (M m u : Nat) (k : Key) :
    hfSlot S (.hotfix M m u) k =
      if (M, some m) = k ∧ Branch.hotfix M m u ∈ S then some ⟨M, m, u, -1⟩ else none := rfl

theorem hfSlot_nonhotfix (S : List Branch) {dst : Branch} (h : dst.isHotfix = false) (k : Key) :
    hfSlot S dst k = none := by
  cases dst <;> first | rfl | simp [Branch.isHotfix] at h

structure EntryOK (S : List Branch) (dst : Branch) (p : Key × BranchSet) : Prop where
  dev : p.2.dev = if Branch.dev p.1.1 p.1.2 ∈ S then some (freshDev p.1) else none
  stbMem : ∀ st, p.2.stb = some st → st.toBranch ∈ S ∧ (st.major, some st.minor) = p.1
  stbNone : p.2.stb = none → ∀ m u, p.1.2 = some m → Branch.stab p.1.1 m u ∉ S
  hf : p.2.hf = hfSlot S dst p.1

/-- the cascade `c` holds exactly the branches `S` (hotfix branches other than the destination excluded) -/
structure Rep (S : List Branch) (dst : Branch) (c : Cascade) : Prop where
  sorted : Sorted c
  entries : ∀ p ∈ c, EntryOK S dst p
  used : ∀ p ∈ c, p.2.dev.isSome ∨ p.2.stb.isSome ∨ p.2.hf.isSome
  keys : ∀ b ∈ S, hotfixSkipped dst b = false → ∃ p ∈ c, p.1 = b.key
  oneStab : ∀ M m u u', Branch.stab M m u ∈ S → Branch.stab M m u' ∈ S → u = u'

theorem hfSlot_congr {S S' : List Branch} (dst : Branch) (k : Key) (h : dst ∈ S ↔ dst ∈ S') :
    hfSlot S dst k = hfSlot S' dst k := by
  unfold hfSlot
  cases dst <;> simp only [h]

theorem EntryOK.congr {S S' : List Branch} {dst : Branch} {p : Key × BranchSet}
    (h : ∀ x, x ∈ S ↔ x ∈ S') (e : EntryOK S dst p) : EntryOK S' dst p where
  dev := by rw [e.dev]; simp only [h]
  stbMem := fun st hst => ⟨(h _).mp (e.stbMem st hst).1, (e.stbMem st hst).2⟩
  stbNone := fun hn m u hm hmem => e.stbNone hn m u hm ((h _).mpr hmem)
  hf := by rw [e.hf]; exact hfSlot_congr dst p.1 (h dst)

theorem Rep.congr {S S' : List Branch} {dst : Branch} {c : Cascade}
    (h : ∀ x, x ∈ S ↔ x ∈ S') (r : Rep S dst c) : Rep S' dst c where
  sorted := r.sorted
  entries := fun p hp => (r.entries p hp).congr h
  used := r.used
  keys := fun b hb hs => r.keys b ((h b).mpr hb) hs
  oneStab := fun M m u u' h1 h2 => r.oneStab M m u u' ((h _).mpr h1) ((h _).mpr h2)

theorem hotfixSkipped_self_or (dst : Branch) : hotfixSkipped dst dst = false := by
  cases dst <;> simp [hotfixSkipped]

/-- an entry of another line is not concerned by the arrival of `b` -/
theorem EntryOK.other {S : List Branch} {dst b : Branch} {p : Key × BranchSet}
    (e : EntryOK S dst p) (hk : p.1 ≠ b.key) : EntryOK (b :: S) dst p where
  dev := by
    rw [e.dev]
    have : Branch.dev p.1.1 p.1.2 ≠ b := by
      intro hb; subst hb; exact hk rfl
    simp only [List.mem_cons, this, false_or]
  stbMem := fun st hst => ⟨List.mem_cons_of_mem _ (e.stbMem st hst).1, (e.stbMem st hst).2⟩
  stbNone := by
    intro hn m u hm hmem
    rcases List.mem_cons.mp hmem with hb | hmem
    · subst hb
      apply hk
      simp only [Branch.key]
      rw [← hm]
    · exact e.stbNone hn m u hm hmem
  hf := by
    rw [e.hf]
    unfold hfSlot
    cases dst with
    | hotfix M m u =>
      by_cases hd : Branch.hotfix M m u = b
      · subst hd
        have : ¬ ((M, some m) = p.1) := fun h => hk h.symm
        simp [this]
      · simp [hd]
    | dev M m => rfl
    | stab M m u => rfl

theorem hfSlot_cons {S : List Branch} {dst b : Branch} (k : Key) (hb : b.isHotfix = false) :
    hfSlot (b :: S) dst k = hfSlot S dst k := by
  cases dst with
  | dev M m => rfl
  | stab M m u => rfl
  | hotfix M m u =>
    apply hfSlot_congr
    have : Branch.hotfix M m u ≠ b := by
      intro h; subst h; simp [Branch.isHotfix] at hb
    simp [this]

theorem devSlot_cons {S : List Branch} {b : Branch} (k : Key) (hb : b.isDev = false) :
    (if Branch.dev k.1 k.2 ∈ b :: S then some (freshDev k) else none) =
      (if Branch.dev k.1 k.2 ∈ S then some (freshDev k) else none) := by
  have : Branch.dev k.1 k.2 ≠ b := by
    intro h; subst h; simp [Branch.isDev] at hb
  simp only [List.mem_cons, this, false_or]

/-- a skipped hotfix branch changes nothing -/
theorem EntryOK.skipped {S : List Branch} {dst b : Branch} {p : Key × BranchSet}
    (e : EntryOK S dst p) (hs : hotfixSkipped dst b = true) : EntryOK (b :: S) dst p := by
  have hb : b.isHotfix = true := by
    cases b <;> simp_all [hotfixSkipped, Branch.isHotfix]
  have hne : dst ≠ b := by
    intro h; subst h; rw [hotfixSkipped_self_or] at hs; cases hs
  exact
  { dev := by
      rw [e.dev]
      have : Branch.dev p.1.1 p.1.2 ≠ b := by
        intro h; subst h; simp [Branch.isHotfix] at hb
      simp only [List.mem_cons, this, false_or]
    stbMem := fun st hst => ⟨List.mem_cons_of_mem _ (e.stbMem st hst).1, (e.stbMem st hst).2⟩
    stbNone := by
      intro hn m u hm hmem
      rcases List.mem_cons.mp hmem with h | hmem
      · subst h; simp [Branch.isHotfix] at hb
      · exact e.stbNone hn m u hm hmem
    hf := by
      rw [e.hf]
      apply hfSlot_congr
      simp only [List.mem_cons, hne, false_or] }

/-! ### the key is created on demand, the cascade stays sorted -/

theorem prepare {S : List Branch} {dst : Branch} {c : Cascade} (r : Rep S dst c) (k : Key) :
    let c1 := if (get? c k).isSome then c else sortCascade (c ++ [(k, emptySet)])
    Sorted c1 ∧ ∃ set, get? c1 k = some set ∧
      (∀ p, p ∈ c1 ↔ p ∈ c ∨ p = (k, set)) ∧
      ((k, set) ∈ c ∨ (set = emptySet ∧ ∀ p ∈ c, p.1 ≠ k)) := by
  intro c1
  cases hg : get? c k with
  | some set =>
    have hc1 : c1 = c := by simp [c1, hg]
    rw [hc1]
    refine ⟨r.sorted, set, hg, ?_, Or.inl (get?_mem hg)⟩
    intro p
    constructor
    · exact Or.inl
    · rintro (h | rfl)
      · exact h
      · exact get?_mem hg
  | none =>
    have hc1 : c1 = sortCascade (c ++ [(k, emptySet)]) := by simp [c1, hg]
    have hnk := get?_none.mp hg
    have hnd : ((c ++ [(k, emptySet)]).map (·.1)).Nodup := by
      rw [List.map_append, List.nodup_append]
      refine ⟨r.sorted.nodupKeys, by simp, ?_⟩
      intro a ha b hb
      simp only [List.map_cons, List.map_nil, List.mem_singleton] at hb
      subst hb
      obtain ⟨p, hp, rfl⟩ := List.mem_map.mp ha
      exact hnk p hp
    have hs : Sorted c1 := hc1 ▸ sortCascade_sorted hnd
    have hmem : ∀ p, p ∈ c1 ↔ p ∈ c ∨ p = (k, emptySet) := by
      intro p
      rw [hc1, (sortCascade_perm _).mem_iff]
      simp
    refine ⟨hs, emptySet, get?_of_mem hs ((hmem _).mpr (Or.inr rfl)), hmem, Or.inr ⟨rfl, hnk⟩⟩

/-- the slot-independent part of `EntryOK` holds for a line just created -/
theorem fresh_entry {S : List Branch} {dst : Branch} {c : Cascade} (r : Rep S dst c) {k : Key}
    (hnk : ∀ p ∈ c, p.1 ≠ k) : EntryOK S dst (k, emptySet) where
  dev := by
    have : Branch.dev k.1 k.2 ∉ S := by
      intro h
      obtain ⟨p, hp, hk⟩ := r.keys _ h rfl
      exact hnk p hp hk
    simp [emptySet, this]
  stbMem := by intro st h; simp [emptySet] at h
  stbNone := by
    intro _ m u hm h
    obtain ⟨p, hp, hk⟩ := r.keys _ h rfl
    apply hnk p hp
    rw [hk]
    simp only [Branch.key]
    rw [← hm]
  hf := by
    unfold hfSlot
    cases dst with
    | hotfix M m u =>
      have : ¬ ((M, some m) = k ∧ Branch.hotfix M m u ∈ S) := by
        rintro ⟨hk, hmem⟩
        obtain ⟨p, hp, hpk⟩ := r.keys _ hmem (hotfixSkipped_self_or _)
        exact hnk p hp (by rw [hpk, ← hk]; rfl)
      simp [emptySet, this]
    | dev M m => rfl
    | stab M m u => rfl

/-- all the lines of `c1`, old or new, satisfy `EntryOK S` -/
theorem entries_c1 {S : List Branch} {dst : Branch} {c c1 : Cascade} (r : Rep S dst c) {k : Key} {set : BranchSet}
    (hmem : ∀ p, p ∈ c1 ↔ p ∈ c ∨ p = (k, set))
    (hset : (k, set) ∈ c ∨ (set = emptySet ∧ ∀ p ∈ c, p.1 ≠ k)) :
    ∀ p ∈ c1, EntryOK S dst p := by
  intro p hp
  rcases (hmem p).mp hp with h | rfl
  · exact r.entries p h
  · rcases hset with h | ⟨rfl, hnk⟩
    · exact r.entries _ h
    · exact fresh_entry r hnk

theorem canBeDestination_std (b : Branch) : canBeDestination Cfg.std b = true := by
  cases b <;> rfl

/-- **one `add_branch`** -/
theorem addBranch_step {S : List Branch} {dst : Branch} {c : Cascade} (r : Rep S dst c) (b : Branch)
    (hb : b ∉ S) :
    (∃ c', addBranch Cfg.std dst c b = .ok c' ∧ Rep (b :: S) dst c') ∨
    (addBranch Cfg.std dst c b = .error .unsupportedMultipleStabBranches ∧
      ∃ M m u u', u ≠ u' ∧ b = .stab M m u ∧ Branch.stab M m u' ∈ S) := by
  unfold addBranch
  simp only [canBeDestination_std, Bool.not_true, Bool.false_eq_true, if_false]
  by_cases hskip : hotfixSkipped dst b = true
  · left
    simp only [hskip, if_true]
    refine ⟨c, rfl, r.sorted, fun p hp => (r.entries p hp).skipped hskip, r.used, ?_, ?_⟩
    · intro b' hb' hs'
      rcases List.mem_cons.mp hb' with rfl | hb'
      · rw [hs'] at hskip; cases hskip
      · exact r.keys b' hb' hs'
    · intro M m u u' h1 h2
      have hh : b.isHotfix = true := by cases b <;> simp_all [hotfixSkipped, Branch.isHotfix]
      rcases List.mem_cons.mp h1 with rfl | h1
      · simp [Branch.isHotfix] at hh
      · rcases List.mem_cons.mp h2 with rfl | h2
        · simp [Branch.isHotfix] at hh
        · exact r.oneStab M m u u' h1 h2
  · simp only [hskip, Bool.false_eq_true, if_false]
    have hskip' : hotfixSkipped dst b = false := by simpa using hskip
    obtain ⟨hs1, set, hget, hmem, hset⟩ := prepare r b.key
    generalize hc1 : (if (get? c b.key).isSome then c else sortCascade (c ++ [(b.key, emptySet)])) = c1 at *
    rw [hget]
    have hin : (b.key, set) ∈ c1 := get?_mem hget
    have hent := entries_c1 r hmem hset
    have hE := hent _ hin
    -- the generic part of the new invariant, for a slot update `f` at `b.key`
    have mk : ∀ f : BranchSet → BranchSet, EntryOK (b :: S) dst (b.key, f set) →
        ((f set).dev.isSome ∨ (f set).stb.isSome ∨ (f set).hf.isSome) →
        (∀ M m u u', Branch.stab M m u ∈ b :: S → Branch.stab M m u' ∈ b :: S → u = u') →
        Rep (b :: S) dst (setAt c1 b.key f) := by
      intro f hnew hused hone
      refine ⟨hs1.setAt _ _, ?_, ?_, ?_, hone⟩
      · intro q hq
        obtain ⟨p, hp, rfl⟩ := mem_setAt.mp hq
        by_cases hk : p.1 = b.key
        · have : p = (b.key, set) := hs1.eq_of_mem hp hin hk
          subst this
          simpa using hnew
        · simp only [hk, if_false]
          exact (hent p hp).other hk
      · intro q hq
        obtain ⟨p, hp, rfl⟩ := mem_setAt.mp hq
        by_cases hk : p.1 = b.key
        · have : p = (b.key, set) := hs1.eq_of_mem hp hin hk
          subst this
          simpa using hused
        · simp only [hk, if_false]
          rcases (hmem p).mp hp with h | rfl
          · exact r.used p h
          · exact absurd rfl hk
      · intro b' hb' hs'
        have : ∃ p ∈ c1, p.1 = b'.key := by
          rcases List.mem_cons.mp hb' with rfl | hb'
          · exact ⟨_, hin, rfl⟩
          · obtain ⟨p, hp, hk⟩ := r.keys b' hb' hs'
            exact ⟨p, (hmem p).mpr (Or.inl hp), hk⟩
        obtain ⟨p, hp, hk⟩ := this
        refine ⟨_, mem_setAt.mpr ⟨p, hp, rfl⟩, ?_⟩
        have : (if p.1 = b.key then (p.1, f p.2) else p).1 = p.1 := by split <;> rfl
        rw [this]; exact hk
    cases b with
    | dev M m =>
      left
      have hdev : set.dev = none := by
        rw [hE.dev]; simp only [Branch.key] at hb ⊢; simp [hb]
      simp only [hdev, Option.isSome_none, Bool.false_eq_true, if_false]
      refine ⟨_, rfl, mk _ ?_ (Or.inl rfl) ?_⟩
      · exact
        { dev := by simp [Branch.key, freshDev, Cfg.std]
          stbMem := fun st hst => ⟨List.mem_cons_of_mem _ (hE.stbMem st hst).1, (hE.stbMem st hst).2⟩
          stbNone := by
            intro hn m' u hm hmem'
            rcases List.mem_cons.mp hmem' with h | hmem'
            · cases h
            · exact hE.stbNone hn m' u hm hmem'
          hf := by
            show set.hf = _
            rw [hE.hf, hfSlot_cons _ rfl] }
      · intro M' m' u u' h1 h2
        rcases List.mem_cons.mp h1 with h | h1
        · cases h
        · rcases List.mem_cons.mp h2 with h | h2
          · cases h
          · exact r.oneStab M' m' u u' h1 h2
    | stab M m u =>
      cases hst : set.stb with
      | some st =>
        right
        simp only [hst, Option.isSome_some, if_true]
        obtain ⟨h1, h2⟩ := hE.stbMem st hst
        simp only [Branch.key, Prod.mk.injEq, Option.some.injEq] at h2
        obtain ⟨hM, hm⟩ := h2
        refine ⟨trivial, M, m, u, st.micro, ?_, rfl, ?_⟩
        · intro hu
          apply hb
          rw [hu, ← hM, ← hm]
          exact h1
        · rw [← hM, ← hm]; exact h1
      | none =>
        left
        simp only [hst, Option.isSome_none, Bool.false_eq_true, if_false]
        refine ⟨_, rfl, mk _ ?_ (Or.inr (Or.inl rfl)) ?_⟩
        · exact
          { dev := by
              show set.dev = _
              rw [hE.dev]
              exact (devSlot_cons _ rfl).symm
            stbMem := by
              intro st' hst'
              simp only [Option.some.injEq] at hst'
              subst hst'
              exact ⟨List.mem_cons_self, rfl⟩
            stbNone := by intro hn; simp at hn
            hf := by
              show set.hf = _
              rw [hE.hf, hfSlot_cons _ rfl] }
        · intro M' m' u1 u2 h1 h2
          have hno : ∀ u', Branch.stab M m u' ∉ S := fun u' => hE.stbNone hst m u' rfl
          rcases List.mem_cons.mp h1 with h | h1 <;> rcases List.mem_cons.mp h2 with h' | h2
          · cases h; cases h'; rfl
          · cases h; exact absurd h2 (hno _)
          · cases h'; exact absurd h1 (hno _)
          · exact r.oneStab M' m' u1 u2 h1 h2
    | hotfix M m u =>
      left
      have hd : dst = Branch.hotfix M m u := by
        cases dst <;> simp_all [hotfixSkipped]
      subst hd
      have hhf : set.hf = none := by
        rw [hE.hf]; simp [hfSlot, hb]
      simp only [hhf, Option.isSome_none, Bool.false_eq_true, if_false]
      refine ⟨_, rfl, mk _ ?_ (Or.inr (Or.inr rfl)) ?_⟩
      · exact
        { dev := by
            show set.dev = _
            rw [hE.dev]
            exact (devSlot_cons _ rfl).symm
          stbMem := fun st hst => ⟨List.mem_cons_of_mem _ (hE.stbMem st hst).1, (hE.stbMem st hst).2⟩
          stbNone := by
            intro hn m' u' hm hmem'
            rcases List.mem_cons.mp hmem' with h | hmem'
            · cases h
            · exact hE.stbNone hn m' u' hm hmem'
          hf := by simp [hfSlot, Branch.key, Cfg.std] }
      · intro M' m' u1 u2 h1 h2
        rcases List.mem_cons.mp h1 with h | h1
        · cases h
        · rcases List.mem_cons.mp h2 with h | h2
          · cases h
          · exact r.oneStab M' m' u1 u2 h1 h2

/-! ### all the branches -/

theorem rep_nil (dst : Branch) : Rep [] dst [] where
  sorted := List.Pairwise.nil
  entries := by intro p hp; cases hp
  used := by intro p hp; cases hp
  keys := by intro b hb; cases hb
  oneStab := by intro M m u u' h; cases h

theorem multipleStab_of {bs : List Branch} {M m u u' : Nat} (hne : u ≠ u')
    (h1 : Branch.stab M m u ∈ bs) (h2 : Branch.stab M m u' ∈ bs) : multipleStab bs = true := by
  unfold multipleStab
  rw [List.any_eq_true]
  refine ⟨_, h1, ?_⟩
  rw [List.any_eq_true]
  refine ⟨_, h2, ?_⟩
  simp [Branch.isStab, Branch.key, hne]

theorem not_multipleStab_of {bs : List Branch}
    (h : ∀ M m u u', Branch.stab M m u ∈ bs → Branch.stab M m u' ∈ bs → u = u') : multipleStab bs = false := by
  cases hm : multipleStab bs with
  | false => rfl
  | true =>
    unfold multipleStab at hm
    rw [List.any_eq_true] at hm
    obtain ⟨b, hb, hm⟩ := hm
    rw [List.any_eq_true] at hm
    obtain ⟨b', hb', hm⟩ := hm
    cases b <;> cases b' <;> simp [Branch.isStab, Branch.key] at hm
    obtain ⟨⟨rfl, rfl⟩, hne⟩ := hm
    exact absurd (h _ _ _ _ hb hb') (hne rfl rfl)

theorem addAll_gen (dst : Branch) (bs : List Branch) : ∀ (S : List Branch) (c : Cascade), Rep S dst c →
    (∀ b ∈ bs, b ∉ S) → bs.Nodup →
    (∃ c', addAll Cfg.std dst c bs = .ok c' ∧ Rep (bs.reverse ++ S) dst c') ∨
    (addAll Cfg.std dst c bs = .error .unsupportedMultipleStabBranches ∧
      multipleStab (bs.reverse ++ S) = true) := by
  induction bs with
  | nil => intro S c r _ _; exact Or.inl ⟨c, rfl, by simpa using r⟩
  | cons b bs ih =>
    intro S c r hS hnd
    rw [List.nodup_cons] at hnd
    have hb : b ∉ S := hS b List.mem_cons_self
    unfold addAll
    rcases addBranch_step r b hb with ⟨c', hc', r'⟩ | ⟨he, M, m, u, u', hne, rfl, hmem⟩
    · rw [hc']
      have := ih (b :: S) c' r' (by
        intro x hx hxs
        rcases List.mem_cons.mp hxs with rfl | hxs
        · exact hnd.1 hx
        · exact hS x (List.mem_cons_of_mem _ hx) hxs) hnd.2
      simpa [List.reverse_cons, List.append_assoc] using this
    · right
      rw [he]
      refine ⟨rfl, multipleStab_of hne (M := M) (m := m) (u := u) (u' := u') ?_ ?_⟩
      · simp
      · simp [hmem]

/-- **Phase 1**: either the sorted cascade of the lines of `bs`, or two stabilization branches on one line. -/
theorem addAll_spec (dst : Branch) {bs : List Branch} (hnd : bs.Nodup) :
    (∃ c, addAll Cfg.std dst [] bs = .ok c ∧ Rep bs dst c ∧ multipleStab bs = false) ∨
    (addAll Cfg.std dst [] bs = .error .unsupportedMultipleStabBranches ∧ multipleStab bs = true) := by
  rcases addAll_gen dst bs [] [] (rep_nil dst) (by intro b _ h; cases h) hnd with ⟨c, hc, r⟩ | ⟨he, hm⟩
  · left
    have r' : Rep bs dst c := r.congr (by intro x; simp)
    exact ⟨c, hc, r', not_multipleStab_of r'.oneStab⟩
  · right
    refine ⟨he, ?_⟩
    simp only [List.append_nil] at hm
    unfold multipleStab at hm ⊢
    rw [List.any_eq_true] at hm ⊢
    obtain ⟨b, hb, hm⟩ := hm
    refine ⟨b, List.mem_reverse.mp hb, ?_⟩
    rw [List.any_eq_true] at hm ⊢
    obtain ⟨b', hb', hm⟩ := hm
    exact ⟨b', List.mem_reverse.mp hb', hm⟩

end BertE.Cascade
