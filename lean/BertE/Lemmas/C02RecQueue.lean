import BertE.Lemmas.C02Content
/- C02, recovery of the jobs whose plan is ONE atomic pruning push (or nothing): the queue merge and the clean-up
   jobs (declined pull request, reset, rebuild / delete queues). Interrupted anywhere, with anything refused, the
   remote is either exactly where it was (the event delivered again has the same plan) or exactly what the
   uninterrupted job leaves (and the event delivered again changes nothing). Work package `Recovery`. -/
namespace BertE.Flow
open BertE.Git

/-- the uninterrupted, unrefused application of a plan -/
def rec_done (s : Sys) (p : Plan) : RefMap := applyOps p.g noRej s.remote p.ops

theorem rec_all_mono {α : Type} {l : List α} {f f' : α → Bool} (h : ∀ a, f a = true → f' a = true)
    (hl : l.all f = true) : l.all f' = true := by
  rw [List.all_eq_true] at hl ⊢
  exact fun a ha => h a (hl a ha)

/-- **One atomic pruning push, interrupted anywhere, anything refused**: the remote has not changed at all, or it
    is exactly the content of the push - and then the unrefused push yields that content too. -/
theorem rec_single_push (g : Graph) (rej : Nat → Ref → Bool) (k : Nat) (remote loc : RefMap) :
    applyOpsAt g rej 0 remote ([Op.pushAll loc true].take k) = remote ∨
    (applyOpsAt g rej 0 remote ([Op.pushAll loc true].take k) = loc ∧
      applyOps g noRej remote [Op.pushAll loc true] = loc) := by
  cases k with
  | zero => exact Or.inl rfl
  | succ k =>
    simp only [List.take_succ_cons, List.take_nil, applyOpsAt, applyOp, applyOps, List.foldl_cons, List.foldl_nil]
    by_cases hc : (loc.all (fun rc => loc.get rc.1 != some rc.2 || remote.get rc.1 == some rc.2 ||
          (accepts g remote rc.1 rc.2 && !rej 0 rc.1)) &&
        (!true || remote.all (fun rc => loc.has rc.1 || !rej 0 rc.1))) = true
    · right
      have hc' : (loc.all (fun rc => loc.get rc.1 != some rc.2 || remote.get rc.1 == some rc.2 ||
            (accepts g remote rc.1 rc.2 && !noRej rc.1)) &&
          (!true || remote.all (fun rc => loc.has rc.1 || !noRej rc.1))) = true := by
        rw [Bool.and_eq_true] at hc ⊢
        refine ⟨rec_all_mono ?_ hc.1, ?_⟩
        · intro rc h
          simp only [Bool.or_eq_true, Bool.and_eq_true] at h ⊢
          rcases h with h | ⟨h, _⟩
          · exact Or.inl h
          · exact Or.inr ⟨h, rfl⟩
        · simp [noRej]
      rw [if_pos hc, if_pos hc']
      exact ⟨rfl, rfl⟩
    · left
      rw [if_neg hc]

/-- a plan that is nothing or one atomic pruning push -/
def rec_Single (ops : List Op) : Prop := ops = [] ∨ ∃ loc, ops = [Op.pushAll loc true]

theorem rec_single_observable {s : Sys} {p : Plan} (hp : rec_Single p.ops) (rej : Nat → Ref → Bool) (k : Nat) :
    observableAt s p rej k = s.remote ∨ observableAt s p rej k = rec_done s p := by
  unfold observableAt rec_done
  rcases hp with h | ⟨loc, h⟩
  · rw [h, List.take_nil]; exact Or.inl rfl
  · rw [h]
    rcases rec_single_push p.g rej k s.remote loc with h1 | ⟨h1, h2⟩
    · exact Or.inl h1
    · exact Or.inr (h1.trans h2.symm)

theorem rec_interrupted_self {s : Sys} {p : Plan} (hg : p.g = s.g) {rej : Nat → Ref → Bool} {k : Nat}
    (h : observableAt s p rej k = s.remote) : interrupted s p rej k = s := by
  unfold interrupted
  rw [h, hg]

/-! ### the queue merge -/

theorem rec_planQueues_single (s : Sys) (sel : List Nat) : rec_Single (planQueues s sel).ops := by
  unfold planQueues
  simp only
  split
  · exact Or.inl rfl
  · exact Or.inr ⟨_, rfl⟩

/-- the pull requests that a queue merge has merged are not selected again: the event delivered again to the
    state that the landed push leaves plans nothing -/
theorem rec_planQueues_again (s : Sys) (sel : List Nat) (g : Graph) (m : RefMap) :
    (planQueues { s with g := g, remote := m, queue := (planQueues s sel).queue } sel).ops = [] := by
  have hq : ((planQueues s sel).queue.filter (fun e => sel.contains e.pr)) = [] := by
    rw [List.filter_eq_nil_iff]
    intro e he
    unfold planQueues at he
    simp only at he
    split at he
    · rename_i hempty
      have : s.queue.filter (fun e => sel.contains e.pr) = [] := by simpa using hempty
      rw [List.filter_eq_nil_iff] at this
      exact this e he
    · simp only [List.mem_filter] at he
      simpa using he.2
  generalize (planQueues s sel).queue = q at hq
  unfold planQueues
  simp only [hq, List.isEmpty_nil, if_true]

/-! ### clean-up jobs -/

theorem rec_mem_delRefs : ∀ (rs : List Ref) (m : RefMap) (rc : Ref × Commit), rc ∈ delRefs m rs → rc ∈ m ∧ rc.1 ∉ rs
  | [], _, _, h => ⟨h, fun h' => nomatch h'⟩
  | r :: rs, m, rc, h => by
    unfold delRefs at h
    simp only [List.foldl_cons] at h
    obtain ⟨h1, h2⟩ := rec_mem_delRefs rs (m.del r) rc h
    unfold RefMap.del at h1
    simp only [List.mem_filter, bne_iff_ne, ne_eq] at h1
    exact ⟨h1.1, by simp only [List.mem_cons, not_or]; exact ⟨h1.2, h2⟩⟩

theorem rec_allQRefs_gone (m : RefMap) : allQRefs (delRefs m (allQRefs m)) = [] := by
  unfold allQRefs
  simp only [List.map_eq_nil_iff, List.filter_eq_nil_iff]
  intro rc hrc hq
  obtain ⟨h1, h2⟩ := rec_mem_delRefs _ m rc hrc
  apply h2
  simp only [List.mem_map, List.mem_filter]
  exact ⟨rc, ⟨h1, hq⟩, rfl⟩

theorem rec_wRefs_gone (m : RefMap) (rs : List Ref) :
    rs.filter (fun r => (delRefs m (rs.filter (fun r => m.has r))).has r) = [] := by
  rw [List.filter_eq_nil_iff]
  intro r hr hh
  rw [RefMap.has_iff] at hh
  obtain ⟨c, hc⟩ := hh
  rw [get_delRefs] at hc
  by_cases hin : r ∈ rs.filter (fun r => m.has r)
  · rw [if_pos hin] at hc; cases hc
  · rw [if_neg hin] at hc
    exact hin (List.mem_filter.mpr ⟨hr, (RefMap.has_iff _ _).mpr ⟨c, hc⟩⟩)

/-- pushing exactly what the remote has changes nothing -/
theorem rec_push_self (g : Graph) (m : RefMap) : applyOps g noRej m [Op.pushAll m true] = m := by
  simp only [applyOps, List.foldl_cons, List.foldl_nil, applyOp]
  split <;> rfl

theorem rec_cleanup_single (s : Sys) (ev : Event)
    (hev : (∃ pr cd, ev = .evalDeclined pr cd) ∨ (∃ pr, ev = .reset pr) ∨ ev = .dropQueues) :
    rec_Single (plan s ev).ops ∧ (plan s ev).g = s.g := by
  rcases hev with ⟨pr, cd, rfl⟩ | ⟨pr, rfl⟩ | rfl
  · simp only [plan, planDeclined]
    split
    · exact ⟨Or.inl rfl, rfl⟩
    · exact ⟨Or.inr ⟨_, rfl⟩, rfl⟩
  · simp only [plan, planReset]
    split
    · exact ⟨Or.inl rfl, rfl⟩
    · exact ⟨Or.inr ⟨_, rfl⟩, rfl⟩
  · simp only [plan, planDropQueues]
    split
    · exact ⟨Or.inl rfl, rfl⟩
    · exact ⟨Or.inr ⟨_, rfl⟩, rfl⟩

/-- the operations of a clean-up job as a function of the remote alone -/
def rec_cleanOps (s : Sys) (ev : Event) (m : RefMap) : List Op := (plan { s with remote := m } ev).ops

theorem rec_cleanup_ops (s : Sys) (ev : Event)
    (hev : (∃ pr cd, ev = .evalDeclined pr cd) ∨ (∃ pr, ev = .reset pr) ∨ ev = .dropQueues)
    (m : RefMap) (q : List QEntry) :
    (plan { s with remote := m, queue := q } ev).ops = rec_cleanOps s ev m ∧
    (plan { s with remote := m, queue := q } ev).g = s.g := by
  unfold rec_cleanOps
  rcases hev with ⟨pr, cd, rfl⟩ | ⟨pr, rfl⟩ | rfl
  · simp only [plan, planDeclined]
    have ht : ∀ q', Sys.targets { s with remote := m, queue := q' } pr.dst = s.targets pr.dst := fun _ => rfl
    simp only [ht]
    split <;> exact ⟨rfl, rfl⟩
  · simp only [plan, planReset]
    have ht : ∀ q', Sys.targets { s with remote := m, queue := q' } pr.dst = s.targets pr.dst := fun _ => rfl
    simp only [ht]
    split <;> exact ⟨rfl, rfl⟩
  · simp only [plan, planDropQueues]
    split <;> simp

/-- a clean-up job plans nothing, or the push of `loc`; on `loc` it plans nothing, or the push of `loc` itself -/
theorem rec_cleanOps_shape (s : Sys) (ev : Event)
    (hev : (∃ pr cd, ev = .evalDeclined pr cd) ∨ (∃ pr, ev = .reset pr) ∨ ev = .dropQueues) (m : RefMap) :
    rec_cleanOps s ev m = [] ∨ ∃ loc, rec_cleanOps s ev m = [Op.pushAll loc true] ∧
      (rec_cleanOps s ev loc = [] ∨ rec_cleanOps s ev loc = [Op.pushAll loc true]) := by
  unfold rec_cleanOps
  rcases hev with ⟨pr, cd, rfl⟩ | ⟨pr, rfl⟩ | rfl
  · simp only [plan, planDeclined]
    have ht : ∀ m', Sys.targets { s with remote := m' } pr.dst = s.targets pr.dst := fun _ => rfl
    simp only [ht]
    split
    · exact Or.inl rfl
    · right
      refine ⟨_, rfl, ?_⟩
      simp only [rec_wRefs_gone, List.isEmpty_nil, Bool.true_and]
      split
      · exact Or.inl rfl
      · exact Or.inr rfl
  · simp only [plan, planReset]
    have ht : ∀ m', Sys.targets { s with remote := m' } pr.dst = s.targets pr.dst := fun _ => rfl
    simp only [ht]
    split
    · exact Or.inl rfl
    · right
      refine ⟨_, rfl, ?_⟩
      simp [rec_wRefs_gone]
  · simp only [plan, planDropQueues]
    split
    · exact Or.inl rfl
    · right
      refine ⟨_, rfl, ?_⟩
      simp [rec_allQRefs_gone]

theorem rec_again_generic (g : Graph) (opsOf : RefMap → List Op) (m : RefMap)
    (h1 : opsOf m = [] ∨ ∃ loc, opsOf m = [Op.pushAll loc true] ∧
      (opsOf loc = [] ∨ opsOf loc = [Op.pushAll loc true])) :
    applyOps g noRej (applyOps g noRej m (opsOf m)) (opsOf (applyOps g noRej m (opsOf m))) =
      applyOps g noRej m (opsOf m) := by
  rcases h1 with h | ⟨loc, h, h2⟩
  · have : applyOps g noRej m (opsOf m) = m := by rw [h]; rfl
    rw [this, this]
  · have hm2 : applyOps g noRej m (opsOf m) = loc ∨ applyOps g noRej m (opsOf m) = m := by
      rw [h]
      simp only [applyOps, List.foldl_cons, List.foldl_nil, applyOp]
      split
      · exact Or.inl rfl
      · exact Or.inr rfl
    rcases hm2 with h3 | h3
    · rw [h3]
      rcases h2 with h4 | h4
      · rw [h4]; rfl
      · rw [h4]; exact rec_push_self g loc
    · rw [h3, h3]

/-- **A clean-up job delivered again to the state that the first delivery leaves changes nothing** (it plans
    nothing, or - declined pull request whose integration pull requests were declined - a push of exactly what the
    remote has). -/
theorem rec_cleanup_again (s : Sys) (ev : Event)
    (hev : (∃ pr cd, ev = .evalDeclined pr cd) ∨ (∃ pr, ev = .reset pr) ∨ ev = .dropQueues) (q : List QEntry) :
    rec_done { s with remote := rec_done s (plan s ev), queue := q }
      (plan { s with remote := rec_done s (plan s ev), queue := q } ev) = rec_done s (plan s ev) := by
  have h0 := rec_cleanup_ops s ev hev s.remote s.queue
  have hs : ({ s with remote := s.remote, queue := s.queue } : Sys) = s := rfl
  rw [hs] at h0
  have hd : rec_done s (plan s ev) = applyOps s.g noRej s.remote (rec_cleanOps s ev s.remote) := by
    unfold rec_done; rw [h0.1, h0.2]
  have h1 := rec_cleanup_ops s ev hev (rec_done s (plan s ev)) q
  unfold rec_done at h1 ⊢
  rw [h1.1, h1.2]
  unfold rec_done at hd
  rw [hd]
  exact rec_again_generic s.g (rec_cleanOps s ev) s.remote (rec_cleanOps_shape s ev hev s.remote)

end BertE.Flow
