import BertE.Lemmas.CascadeModeN
/- Destination a hotfix branch. -/
namespace BertE.Cascade
open Spec

section
variable {bs : List Branch} {tags : List Tag} {c0 : Cascade} {M m u : Nat}

/-- the hotfix branch object after the tags -/
def hfObj (tags : List Tag) (M m u : Nat) : HfB := evolveHf tags (M, some m) ⟨M, m, u, -1⟩

theorem hfObj_toBranch (tags : List Tag) (M m u : Nat) : (hfObj tags M m u).toBranch = .hotfix M m u := rfl

theorem hfObj_hfrev (tags : List Tag) (M m u : Nat) : (hfObj tags M m u).hfrev = hfRev tags M m u := rfl

theorem hf_H (r : Rep bs (.hotfix M m u) c0) (hdst : Branch.hotfix M m u ∈ bs) :
    ∀ q ∈ c3of tags c0, q.2.hf = if (M, some m) = q.1 then some (hfObj tags M m u) else none := by
  intro q hq
  rw [(c3_entries r tags q hq).hf, hfSlot_hotfix]
  by_cases h : (M, some m) = q.1
  · simp only [h, hdst, and_self, if_true, Option.map_some, hfObj]
  · simp [h]

theorem hfDst_H (r : Rep bs (.hotfix M m u) c0) (hdst : Branch.hotfix M m u ∈ bs) :
    ∀ q ∈ c3of tags c0, ∀ h, q.2.hf = some h → h.toBranch = .hotfix M m u := by
  intro q hq h hh
  rw [hf_H r hdst q hq] at hh
  split at hh
  · simp only [Option.some.injEq] at hh; subst hh; rfl
  · cases hh

/-- what the line `q` contributes to the ignored branches -/
def gH (q : Key × BranchSet) : List Branch := stbBranch q.2 ++ devBranch q

theorem namesH_eq (q : Key × BranchSet) : namesH q = (gH q).map Branch.name := by
  unfold namesH gH devBranch stbBranch stbName
  cases q.2.dev <;> cases q.2.stb <;> simp

theorem ignored_H (r : Rep bs (.hotfix M m u) c0) (hnd : bs.Nodup) :
    sortNames ((c3of tags c0).flatMap namesH) = Spec.ignored bs (.hotfix M m u) := by
  have : (c3of tags c0).flatMap namesH = ((c3of tags c0).flatMap gH).map Branch.name := by
    rw [List.map_flatMap]; exact flatMap_congr' (fun q _ => namesH_eq q)
  rw [this]
  unfold Spec.ignored
  apply sortNames_perm
  apply List.Perm.map
  have hs := c3_sorted r tags
  have hF := c3_entries r tags
  have hndl : ((c3of tags c0).flatMap gH).Nodup := by
    apply nodup_flatMap_keys hs
    · intro q hq b hb
      rcases List.mem_append.mp hb with h | h
      · exact stbBranch_key (hF q hq) b h
      · exact devBranch_key (hF q hq) b h
    · intro q _
      unfold gH devBranch stbBranch
      cases q.2.dev <;> cases q.2.stb <;> simp [DevB.toBranch, StabB.toBranch]
  refine (List.perm_ext_iff_of_nodup hndl (hnd.sublist List.filter_sublist)).mpr ?_
  intro b
  rw [List.mem_flatMap, List.mem_filter]
  simp only [Spec.dst, Bool.and_eq_true, Bool.not_eq_true', List.contains_eq_mem, List.mem_singleton,
    decide_eq_false_iff_not]
  constructor
  · rintro ⟨q, hq, hb⟩
    rcases List.mem_append.mp hb with h | h
    · obtain ⟨hst, hbs, _⟩ := (mem_stbBranch (hF q hq) r.oneStab b).mp h
      exact ⟨hbs, by cases b <;> simp_all [Branch.isStab, Branch.isHotfix],
        by intro e; subst e; simp [Branch.isStab] at hst⟩
    · obtain ⟨rfl, hbs⟩ := (mem_devBranch (hF q hq) b).mp h
      exact ⟨hbs, rfl, by intro e; cases e⟩
  · rintro ⟨hbs, hnh, _⟩
    have hsk : hotfixSkipped (.hotfix M m u) b = false := by
      cases b <;> simp_all [hotfixSkipped, Branch.isHotfix]
    obtain ⟨q, hq, hqk⟩ := c3_keys r tags b hbs hsk
    refine ⟨q, hq, ?_⟩
    cases b with
    | hotfix M' m' u' => simp [Branch.isHotfix] at hnh
    | dev M' m' =>
      exact List.mem_append.mpr (Or.inr ((mem_devBranch (hF q hq) _).mpr
        ⟨by simp only [Branch.key] at hqk; rw [hqk], hbs⟩))
    | stab M' m' u' =>
      exact List.mem_append.mpr (Or.inl ((mem_stbBranch (hF q hq) r.oneStab _).mpr ⟨rfl, hbs, hqk.symm⟩))

theorem flatMap_nil {α β : Type} {l : List α} {f : α → List β} (h : ∀ a ∈ l, f a = []) : l.flatMap f = [] := by
  induction l with
  | nil => rfl
  | cons a l ih => rw [List.flatMap_cons, h a List.mem_cons_self, ih (fun b hb => h b (List.mem_cons_of_mem _ hb))]; rfl

theorem spec_error_H (hms : multipleStab bs = false) (hdep : deprecated bs tags (.hotfix M m u) = false)
    (o : Option Err) (ho : orphanErr bs (.hotfix M m u) = o) :
    Spec.error bs tags (.hotfix M m u) = o := by
  cases o <;> simp [Spec.error, hms, hdep, ho, mismatch]

/-- **destination `hotfix/M.m.u`** -/
theorem modeH {inc : Branch → Branch → Bool} (hinc : ∀ a b, inc a b = true)
    (hnd : bs.Nodup) (hdst : Branch.hotfix M m u ∈ bs) (r : Rep bs (.hotfix M m u) c0)
    (hms : multipleStab bs = false) (hdep : deprecated bs tags (.hotfix M m u) = false) :
    (match finalize Cfg.std (.hotfix M m u) (c3of tags c0) with
      | .error e => .error e
      | .ok (kept, res) =>
        match validate inc kept with
        | .error e => .error e
        | .ok () => .ok res) = Spec.result bs tags (.hotfix M m u) := by
  have hH : (Branch.hotfix M m u).isHotfix = true := rfl
  have hF := c3_entries r tags
  have hs := c3_sorted r tags
  have hhf := hf_H (tags := tags) r hdst
  have hhd := hfDst_H (tags := tags) r hdst
  cases hfind : (c3of tags c0).find? (fun q => (hErr q).isSome) with
  | none =>
    have hall : ∀ q ∈ c3of tags c0, hErr q = none := by
      intro q hq
      have := List.find?_eq_none.mp hfind q hq
      cases h : hErr q with
      | none => rfl
      | some e => simp [h] at this
    rw [finalize_H hH _ hall hhd]
    simp only [validate, inc_true hinc, validate_H]
    have hno : bs.any (orphan bs) = false := by
      cases h : bs.any (orphan bs) with
      | false => rfl
      | true =>
        obtain ⟨b, hb, ho⟩ := List.any_eq_true.mp h
        obtain ⟨q, hq, _, hd, hst⟩ := line_of_orphan (tags := tags) r hb ho
        have := hall q hq
        unfold hErr at this
        simp only [hd, Option.isNone_none, Bool.true_and, hst, Bool.and_true] at this
        split at this <;> simp at this
    have hoe : orphanErr bs (.hotfix M m u) = none := by simp [orphanErr, hno]
    simp only [Spec.result, spec_error_H hms hdep none hoe]
    obtain ⟨pre, q0, post, hc, hk, hpre, hpost⟩ := c3_split (tags := tags) r hdst
    simp only [Branch.key] at hk
    have hq0 : q0 ∈ c3of tags c0 := by rw [hc]; simp
    have hhf0 : q0.2.hf = some (hfObj tags M m u) := by rw [hhf q0 hq0, if_pos hk.symm]
    have hhf_pre : ∀ p ∈ pre, p.2.hf = none := by
      intro p hp
      rw [hhf p (by rw [hc]; simp [hp]), if_neg]
      intro h; exact keyLt_ne (hpre p hp) h.symm
    have hhf_post : ∀ p ∈ post, p.2.hf = none := by
      intro p hp
      rw [hhf p (by rw [hc]; simp [hp]), if_neg]
      intro h; exact keyLt_ne (hpost p hp) h
    have hkept : (c3of tags c0).flatMap keptH = [(q0.1, ⟨none, none, some (hfObj tags M m u)⟩)] := by
      rw [hc, List.flatMap_append, List.flatMap_cons,
        flatMap_nil (fun p hp => by simp [keptH, hhf_pre p hp]),
        flatMap_nil (fun p hp => by simp [keptH, hhf_post p hp])]
      simp [keptH, hhf0]
    have hdsts : (c3of tags c0).flatMap hfBranch = [Branch.hotfix M m u] := by
      rw [hc, List.flatMap_append, List.flatMap_cons,
        flatMap_nil (fun p hp => by simp [hfBranch, hhf_pre p hp]),
        flatMap_nil (fun p hp => by simp [hfBranch, hhf_post p hp])]
      simp [hfBranch, hhf0, hfObj_toBranch]
    congr 1
    refine Result.mk.injEq .. |>.mpr ⟨?_, ?_, ?_, ?_⟩
    · rw [hdsts]; rfl
    · exact ignored_H r hnd
    · rw [hkept]
      simp [setTargetVersions, targetOf, Branch.isHotfix, Spec.targetVersions, hfObj_hfrev]
      exact ⟨rfl, rfl, rfl⟩
    · exact mergePaths_spec r hnd hdst tags
  | some bad =>
    obtain ⟨hbad, good, rest, hc, hgood⟩ := List.find?_eq_some_iff_append.mp hfind
    obtain ⟨e, he⟩ := Option.isSome_iff_exists.mp hbad
    have hgood' : ∀ p ∈ good, hErr p = none := by
      intro p hp
      have := hgood p hp
      cases h : hErr p with
      | none => rfl
      | some e => simp [h] at this
    rw [hc, finalize_H_err hH good rest bad e he hgood' (by rw [← hc]; exact hhd)]
    have hbadm : bad ∈ c3of tags c0 := by rw [hc]; simp
    rw [hc, Sorted, List.pairwise_append, List.pairwise_cons] at hs
    -- the failing line has a stabilization branch and no development branch
    have hbd : bad.2.dev = none ∧ bad.2.stb.isSome := by
      unfold hErr at he
      cases hd : bad.2.dev with
      | some d => simp [hd] at he
      | none =>
        refine ⟨rfl, ?_⟩
        rcases (hF bad hbadm).used with h | h | h
        · rw [hd] at h; cases h
        · exact h
        · cases hst : bad.2.stb with
          | some st => rfl
          | none =>
            obtain ⟨hh, hhh⟩ := Option.isSome_iff_exists.mp h
            simp [hd, hst, hhh] at he
    obtain ⟨b, hb, hob, hbk⟩ := orphan_line r hbadm hbd.1 hbd.2
    have hany : bs.any (orphan bs) = true := List.any_eq_true.mpr ⟨b, hb, hob⟩
    -- every other orphan line is the failing line or comes after it
    have hfirst : ∀ b' ∈ bs, orphan bs b' = true → ¬ keyLt b'.key bad.1 := by
      intro b' hb' ho' hlt
      obtain ⟨q', hq', hqk, hqd, hqs⟩ := line_of_orphan (tags := tags) r hb' ho'
      have hne : hErr q' ≠ none := by
        unfold hErr
        simp only [hqd, Option.isNone_none, Bool.true_and, hqs, Bool.and_true]
        split <;> simp
      rw [hc] at hq'
      rcases List.mem_append.mp hq' with h | h
      · exact hne (hgood' q' h)
      · rcases List.mem_cons.mp h with rfl | h
        · rw [hqk] at hlt; exact keyLt_irrefl _ hlt
        · have := hs.2.1.1 q' h
          rw [hqk] at this
          exact keyLt_asymm this hlt
    simp only [Spec.result]
    cases hbh : bad.2.hf with
    | some h0 =>
      have hkey : (M, some m) = bad.1 := by
        have := hhf bad hbadm
        rw [hbh] at this
        by_cases hk : (M, some m) = bad.1
        · exact hk
        · rw [if_neg hk] at this; cases this
      have hee : e = .attributeError := by
        unfold hErr at he
        simp [hbd.1, hbh, hbd.2] at he
        exact he.symm
      subst hee
      have hoe : orphanErr bs (.hotfix M m u) = some .attributeError := by
        unfold orphanErr
        rw [hany]
        have h2 : bs.any (fun b => orphan bs b && b.key == (Branch.hotfix M m u).key) = true :=
          List.any_eq_true.mpr ⟨b, hb, by rw [hob, Bool.true_and, beq_iff_eq, hbk, ← hkey]; rfl⟩
        have h3 : bs.all (fun b => !(orphan bs b && decide (keyLt b.key (Branch.hotfix M m u).key))) = true := by
          rw [List.all_eq_true]
          intro b' hb'
          simp only [Bool.not_eq_true', Bool.and_eq_false_iff, decide_eq_false_iff_not]
          cases ho' : orphan bs b' with
          | false => left; rfl
          | true => right; simp only [Branch.key]; rw [hkey]; exact hfirst b' hb' ho'
        rw [hH, h2, h3]
        rfl
      rw [spec_error_H hms hdep _ hoe]
    | none =>
      have hee : e = .devBranchDoesNotExist := by
        unfold hErr at he
        simp [hbd.1, hbh] at he
        exact he.symm
      subst hee
      have hoe : orphanErr bs (.hotfix M m u) = some .devBranchDoesNotExist := by
        unfold orphanErr
        rw [hany]
        simp only [if_true]
        rw [if_neg]
        intro hC
        simp only [Bool.and_eq_true] at hC
        obtain ⟨⟨_, h2⟩, h3⟩ := hC
        obtain ⟨b0, hb0, hc0⟩ := List.any_eq_true.mp h2
        simp only [Bool.and_eq_true, beq_iff_eq] at hc0
        obtain ⟨q0, hq0, hqk, hqd, hqs⟩ := line_of_orphan (tags := tags) r hb0 hc0.1
        have hq0hf : q0.2.hf = some (hfObj tags M m u) := by
          rw [hhf q0 hq0, if_pos]; rw [hqk, hc0.2]; rfl
        have hne : hErr q0 ≠ none := by
          unfold hErr
          simp [hqd, hq0hf, hqs]
        have hnlt : ¬ keyLt bad.1 (M, some m) := by
          have := List.all_eq_true.mp h3 b hb
          simp only [hob, Bool.true_and, Bool.not_eq_true', decide_eq_false_iff_not] at this
          have hk2 : (Branch.hotfix M m u).key = (M, some m) := rfl
          rw [hbk, hk2] at this; exact this
        have hq0k : q0.1 = (M, some m) := by rw [hqk, hc0.2]; rfl
        rw [hc] at hq0
        rcases List.mem_append.mp hq0 with h | h
        · exact hne (hgood' q0 h)
        · rcases List.mem_cons.mp h with rfl | h
          · rw [hbh] at hq0hf; cases hq0hf
          · have := hs.2.1.1 q0 h
            rw [hq0k] at this
            exact hnlt this
      rw [spec_error_H hms hdep _ hoe]

end

end BertE.Cascade
