import BertE.Lemmas.CloseRecGeom
import BertE.Lemmas.QValidateEval
/- Work package Close, recovery of `add_to_queue`: the evaluation delivered again on the interrupted state, with
   the `validate()` guard (`QV.planPrV`). Every name is prefixed `close_rec_`. -/
namespace BertE.Flow
open BertE.Git BertE.QV

theorem close_rec_crash_eq (s : Sys) (p : Plan) (rej : Nat → Ref → Bool) (k : Nat) :
    crashState s p rej k = interrupted s p rej k := rfl

/-- an evaluation of a pull request that is not queued and answers Queued IS `add_to_queue` on the clone that
    `prepare` handed over -/
theorem close_rec_planPr_enqueue {s : Sys} (pr : PrInfo) (hnaq : alreadyQueued s pr = false) (orc : List Bool)
    (sel : List Nat) {sc : Commit} (hsc : s.remote.get (.other pr.src) = some sc)
    (hout : (planPr s pr .final orc sel).outcome = "Queued") :
    ∃ dc l4 pushW, s.remote.get (.dest pr.dst) = some dc ∧ s.g.le sc dc = false ∧
      prepare s pr sc dc orc = .inr (l4, pushW) ∧ isNeeded s l4 pr (s.targets pr.dst) = true ∧
      planPr s pr .final orc sel = enqueue s l4 pr (s.targets pr.dst) pushW := by
  unfold planPr at hout ⊢
  rw [if_neg (by decide)] at hout ⊢
  rw [hsc] at hout ⊢
  cases hdc : s.remote.get (.dest pr.dst) with
  | none => rw [hdc] at hout; simp at hout
  | some dc =>
    rw [hdc] at hout
    simp only at hout ⊢
    by_cases hle : s.g.le sc dc = true
    · rw [if_pos hle] at hout; simp at hout
    · rw [if_neg hle] at hout ⊢
      rw [if_neg (by rw [hnaq]; exact Bool.false_ne_true)] at hout ⊢
      cases hprep : prepare s pr sc dc orc with
      | inl p =>
        rw [hprep] at hout
        simp only at hout
        rw [rec_prepare_outcome hprep] at hout
        simp at hout
      | inr lp =>
        obtain ⟨l4, pushW⟩ := lp
        rw [hprep] at hout
        simp only at hout ⊢
        rw [if_neg (by decide)] at hout ⊢
        by_cases hneed : isNeeded s l4 pr (s.targets pr.dst) = true
        · rw [if_pos hneed]
          exact ⟨dc, l4, pushW, rfl, by simpa using hle, hprep, hneed, rfl⟩
        · rw [if_neg hneed] at hout
          exact absurd hout (rec_directMerge_outcome _ _ _ _ _ _)

/-- the `validate()` guard of `_handle_pull_request` refuses: the evaluation got as far as `add_to_queue` (source and
    destination exist, no conflict, queueing needed) and the queues of the clone - after the update of the
    integration branches - do not validate -/
def close_rec_outOfOrder (s : Sys) (pr : PrInfo) (orc : List Bool) : Bool :=
  match s.remote.get (.other pr.src), s.remote.get (.dest pr.dst) with
  | some sc, some dc =>
    match prepare s pr sc dc orc with
    | .inr (l4, _) => isNeeded s l4 pr (s.targets pr.dst) && !validated { s with g := l4.g, remote := l4.refs }
    | .inl _ => false
  | _, _ => false

/-- a pull request found queued: the evaluation IS the queue evaluation -/
theorem close_rec_planPrV_queued {s : Sys} {pr : PrInfo} {sc dc : Commit}
    (hsrc : s.remote.get (.other pr.src) = some sc) (hdst : s.remote.get (.dest pr.dst) = some dc)
    (hle : s.g.le sc dc = false) (haq : alreadyQueued s pr = true) (orc : List Bool) (sel : List Nat)
    (wgone : List (Dest × String)) :
    planPrV s pr .final orc sel wgone = evalQueues s sel wgone := by
  simp [planPrV, hsrc, hdst, hle, haq]

/-- a pull request not found queued: `QueueOutOfOrder` having pushed only integration branches when the guard
    refuses, and otherwise exactly the unguarded evaluation -/
theorem close_rec_planPrV_fresh {s : Sys} {pr : PrInfo} {sc dc : Commit}
    (hsrc : s.remote.get (.other pr.src) = some sc) (hdst : s.remote.get (.dest pr.dst) = some dc)
    (hle : s.g.le sc dc = false) (hnaq : alreadyQueued s pr = false) (orc : List Bool) (sel : List Nat)
    (wgone : List (Dest × String)) :
    (close_rec_outOfOrder s pr orc = true ∧ ∃ l4 pushW, prepare s pr sc dc orc = .inr (l4, pushW) ∧
      validated { s with g := l4.g, remote := l4.refs } = false ∧
      planPrV s pr .final orc sel wgone = ⟨l4.g, pushW, "QueueOutOfOrder", s.queue⟩) ∨
    (close_rec_outOfOrder s pr orc = false ∧ planPrV s pr .final orc sel wgone = planPr s pr .final orc []) := by
  unfold close_rec_outOfOrder
  rw [hsrc, hdst]
  simp only
  cases hp : prepare s pr sc dc orc with
  | inl p => right; simp [planPrV, planPr, hsrc, hdst, hle, hnaq, hp]
  | inr x =>
    obtain ⟨l4, pushW⟩ := x
    simp only
    by_cases h5 : isNeeded s l4 pr (s.targets pr.dst) = true
    · by_cases h6 : validated { s with g := l4.g, remote := l4.refs } = true
      · right; simp [planPrV, planPr, hsrc, hdst, hle, hnaq, hp, h5, h6]
      · left
        have h6' : validated { s with g := l4.g, remote := l4.refs } = false := by simpa using h6
        refine ⟨by simp [h5, h6'], l4, pushW, rfl, h6', ?_⟩
        simp [planPrV, hsrc, hdst, hle, hnaq, hp, h5, h6']
    · right; simp [planPrV, planPr, hsrc, hdst, hle, hnaq, hp, h5]

/-- the pushes of the integration branches, interrupted anywhere, anything refused: only `w/<version>/<src>` refs of
    the pull request change -/
theorem close_rec_pushW_only (g : Graph) (rej : Nat → Ref → Bool) (l : Loc) (pr : PrInfo) (rest : List Dest)
    (m : RefMap) (j : Nat) (x : Ref) (hx : ∀ d, x ≠ .w d pr.src) :
    (applyOpsAt g rej 0 m ((pushWOps l pr rest).take j)).get x = m.get x := by
  have hshape : ∀ op ∈ pushWOps l pr rest, ∃ ups, op = Op.push ups ∧ ∀ rc ∈ ups, ∃ d, rc.1 = .w d pr.src := by
    intro op hop
    unfold pushWOps at hop
    split at hop
    · cases hop
    · simp only [List.mem_cons, List.not_mem_nil, or_false] at hop
      refine ⟨_, hop, ?_⟩
      intro rc hrc
      have := tipsOf_mem hrc
      simp only [List.mem_map] at this
      obtain ⟨d, _, hd⟩ := this
      exact ⟨d, hd.symm⟩
  rcases rec_pushes_cases g rej _ 0 m x (fun op hop => by
    obtain ⟨ups, h, _⟩ := hshape op (List.mem_of_mem_take hop); exact ⟨ups, h⟩) with h | ⟨ups, c, hmem, hc, _⟩
  · exact h
  · obtain ⟨ups', he, hups⟩ := hshape _ (List.mem_of_mem_take hmem)
    simp only [Op.push.injEq] at he
    subst he
    obtain ⟨d, hd⟩ := hups _ hc
    exact absurd hd (hx d)

theorem close_rec_prepare_pushW {s : Sys} {pr : PrInfo} {sc dc : Commit} {orc : List Bool} {l4 : Loc} {pushW : List Op}
    (hp : prepare s pr sc dc orc = .inr (l4, pushW)) : pushW = pushWOps l4 pr ((s.targets pr.dst).drop 1) := by
  unfold prepare at hp
  simp only at hp
  split at hp
  · cases hp
  · split at hp
    · cases hp
    · simp only [Sum.inr.injEq, Prod.mk.injEq] at hp
      obtain ⟨rfl, rfl⟩ := hp
      rfl

end BertE.Flow
