import BertE.Lemmas.CascadeFinal
/- The refinement: `build` = `Spec.result`. -/
namespace BertE.Cascade
open Spec

/-! ### general helpers -/

theorem sortNames_perm {l l' : List String} (h : l.Perm l') : sortNames l = sortNames l' := by
  unfold sortNames
  have tr : ∀ (a b c : String), decide (a ≤ b) = true → decide (b ≤ c) = true → decide (a ≤ c) = true := by
    intro a b c h1 h2
    simp only [decide_eq_true_eq] at *
    exact String.le_trans h1 h2
  have tot : ∀ (a b : String), (decide (a ≤ b) || decide (b ≤ a)) = true := by
    intro a b
    simp only [Bool.or_eq_true, decide_eq_true_eq]
    exact String.le_total a b
  refine List.Perm.eq_of_pairwise (le := fun (a b : String) => decide (a ≤ b) = true) ?_
    (List.pairwise_mergeSort tr tot l) (List.pairwise_mergeSort tr tot l')
    ((List.mergeSort_perm l _).trans (h.trans (List.mergeSort_perm l' _).symm))
  intro a b _ _ h1 h2
  simp only [decide_eq_true_eq] at h1 h2
  exact String.le_antisymm h1 h2

/-- branches taken line by line from a sorted cascade are pairwise distinct -/
theorem nodup_flatMap_keys {c : Cascade} (hs : Sorted c) (g : Key × BranchSet → List Branch)
    (hk : ∀ p ∈ c, ∀ b ∈ g p, b.key = p.1) (hn : ∀ p ∈ c, (g p).Nodup) : (c.flatMap g).Nodup := by
  induction c with
  | nil => simp
  | cons p c ih =>
    rw [Sorted, List.pairwise_cons] at hs
    rw [List.flatMap_cons, List.nodup_append]
    refine ⟨hn p List.mem_cons_self, ih hs.2 (fun q hq => hk q (List.mem_cons_of_mem _ hq))
      (fun q hq => hn q (List.mem_cons_of_mem _ hq)), ?_⟩
    intro a ha b hb hab
    obtain ⟨q, hq, hbq⟩ := List.mem_flatMap.mp hb
    have h1 := hk p List.mem_cons_self a ha
    have h2 := hk q (List.mem_cons_of_mem _ hq) b hbq
    have := keyLt_ne (hs.1 q hq)
    rw [← h1, ← h2, hab] at this
    exact this rfl

/-! ### the cascade after phases 2 and 3 -/

/-- what the tags and `_update_major_versions` do to a development branch object of the line `k` -/
def finDev (tags : List Tag) (c1 : Cascade) (k : Key) (d : DevB) : DevB :=
  match k.2 with
  | some _ => evolveDev tags k d
  | none => { evolveDev tags k d with
      latestMinor := maxInts (evolveDev tags k d).latestMinor (minorsOf c1 (evolveDev tags k d).major) }

/-- phases 2 and 3 on one item -/
def fin (tags : List Tag) (c1 : Cascade) (p : Key × BranchSet) : Key × BranchSet :=
  umvEntry c1 (evolve tags p)

theorem fin_key (tags : List Tag) (c1 : Cascade) (p : Key × BranchSet) : (fin tags c1 p).1 = p.1 := by
  unfold fin umvEntry evolve; simp only []; split <;> rfl

theorem fin_stb (tags : List Tag) (c1 : Cascade) (p : Key × BranchSet) : (fin tags c1 p).2.stb = p.2.stb := by
  unfold fin umvEntry evolve; simp only []; split <;> rfl

theorem fin_hf (tags : List Tag) (c1 : Cascade) (p : Key × BranchSet) :
    (fin tags c1 p).2.hf = p.2.hf.map (evolveHf tags p.1) := by
  unfold fin umvEntry evolve; simp only []; split <;> rfl

theorem fin_dev (tags : List Tag) (c1 : Cascade) (p : Key × BranchSet) :
    (fin tags c1 p).2.dev = p.2.dev.map (finDev tags c1 p.1) := by
  obtain ⟨⟨M, mo⟩, dev, stb, hf⟩ := p
  cases mo <;> cases dev <;> simp [fin, umvEntry, evolve, finDev]

theorem minorsOf_map (c : Cascade) (F : Key × BranchSet → Key × BranchSet) (hF : ∀ p, (F p).1 = p.1) (M : Nat) :
    minorsOf (c.map F) M = minorsOf c M := by
  unfold minorsOf
  rw [List.filterMap_map]
  congr 1
  funext p
  simp [Function.comp, hF]

theorem evolve_key (tags : List Tag) (p : Key × BranchSet) : (evolve tags p).1 = p.1 := rfl

/-- the three first phases, then `finalize` and `validate` on the final cascade -/
theorem build_phases {bs : List Branch} {tags : List Tag} {dst : Branch} {c0 : Cascade}
    (inc : Branch → Branch → Bool)
    (hadd : addAll Cfg.std dst [] bs = .ok c0) (r : Rep bs dst c0) (hdep : tags.any (tagErr c0) = false) :
    build Cfg.std inc bs tags dst =
      match finalize Cfg.std dst (c0.map (fin tags (c0.map (evolve tags)))) with
      | .error e => .error e
      | .ok (kept, res) =>
        match validate inc kept with
        | .error e => .error e
        | .ok () => .ok res := by
  unfold build
  rw [hadd]
  simp only []
  rw [readTags_evolve, hdep]
  simp only [Bool.false_eq_true, if_false]
  unfold updateMajorVersions
  rw [umvLoop_eq]
  · simp only [List.map_map]
    rfl
  · intro p hp hmin
    obtain ⟨p0, hp0, rfl⟩ := List.mem_map.mp hp
    have hE := r.entries p0 hp0
    simp only [evolve, Option.isSome_map]
    rcases r.used p0 hp0 with h | h | h
    · exact h
    · obtain ⟨st, hst⟩ := Option.isSome_iff_exists.mp h
      have := (hE.stbMem st hst).2
      rw [evolve_key] at hmin
      rw [← this] at hmin
      cases hmin
    · rw [hE.hf] at h
      rw [evolve_key] at hmin
      unfold hfSlot at h
      cases dst with
      | hotfix M m u =>
        by_cases hc : (M, some m) = p0.1 ∧ Branch.hotfix M m u ∈ bs
        · rw [← hc.1] at hmin; cases hmin
        · simp [hc] at h
      | dev M m => simp at h
      | stab M m u => simp at h

/-! ### the obsolete stabilization branch -/

theorem tagErr_iff {bs : List Branch} {dst : Branch} {c0 : Cascade} (r : Rep bs dst c0) (hdst : dst ∈ bs) (t : Tag) :
    tagErr c0 t = bs.any (fun b =>
      match b with
      | .stab M m s => M == t.major && m == t.minor && (decide (s ≤ t.micro) || dst == .hotfix M m s)
      | _ => false) := by
  rw [Bool.eq_iff_iff, List.any_eq_true]
  unfold tagErr
  constructor
  · intro h
    cases hg : get? c0 (t.major, some t.minor) with
    | none => simp [hg] at h
    | some s =>
      rw [hg] at h
      have hmem := get?_mem hg
      have hE := r.entries _ hmem
      cases hst : s.stb with
      | none => simp [errAt, hst] at h
      | some st =>
        obtain ⟨h1, h2⟩ := hE.stbMem st hst
        simp only [Prod.mk.injEq, Option.some.injEq] at h2
        refine ⟨_, h1, ?_⟩
        simp only [StabB.toBranch, h2.1, h2.2, beq_self_eq_true, Bool.true_and, Bool.or_eq_true,
          decide_eq_true_eq, beq_iff_eq]
        simp only [errAt, hst, Bool.or_eq_true, decide_eq_true_eq] at h
        rcases h with h | h
        · right
          cases hhf : s.hf with
          | none => simp [hhf] at h
          | some hb =>
            simp only [hhf, decide_eq_true_eq] at h
            have := hE.hf
            simp only [hhf] at this
            cases dst with
            | hotfix M m u =>
              rw [hfSlot_hotfix] at this
              by_cases hc : (M, some m) = (t.major, some t.minor) ∧ Branch.hotfix M m u ∈ bs
              · simp only [hc, and_self, if_true, Option.some.injEq] at this
                subst this
                simp only [Prod.mk.injEq, Option.some.injEq] at hc
                simp only at h
                rw [hc.1.1, hc.1.2, h]
              · rw [if_neg hc] at this; cases this
            | dev M m => simp [hfSlot] at this
            | stab M m u => simp [hfSlot] at this
        · left; exact h
  · rintro ⟨b, hb, hm⟩
    cases b with
    | dev M m => simp at hm
    | hotfix M m u => simp at hm
    | stab M m s =>
      simp only [Bool.and_eq_true, beq_iff_eq, Bool.or_eq_true, decide_eq_true_eq] at hm
      obtain ⟨⟨rfl, rfl⟩, hm⟩ := hm
      obtain ⟨p, hp, hk⟩ := r.keys _ hb rfl
      obtain ⟨k, s'⟩ := p
      simp only [Branch.key] at hk
      subst hk
      rw [get?_of_mem r.sorted hp]
      have hE := r.entries _ hp
      cases hst : s'.stb with
      | none => exact absurd hb (hE.stbNone hst t.minor s rfl)
      | some st =>
        obtain ⟨h1, h2⟩ := hE.stbMem st hst
        simp only [Prod.mk.injEq, Option.some.injEq] at h2
        have hs : st.micro = s := by
          have := r.oneStab t.major t.minor st.micro s (by rw [← h2.1, ← h2.2]; exact h1) hb
          exact this
        simp only [errAt, hst, Bool.or_eq_true, decide_eq_true_eq]
        rcases hm with hm | hm
        · right; rw [hs]; exact hm
        · left
          subst hm
          have := hE.hf
          simp only [hfSlot_hotfix, hdst, and_self, if_true] at this
          simp [this, hs]

theorem deprecated_eq {bs : List Branch} {dst : Branch} {c0 : Cascade} (r : Rep bs dst c0) (hdst : dst ∈ bs)
    (tags : List Tag) : tags.any (tagErr c0) = deprecated bs tags dst := by
  unfold deprecated
  congr 1
  funext t
  exact tagErr_iff r hdst t

/-! ### the items of the final cascade, in terms of the repository -/

/-- the development branch object of the line `k` after phases 2 and 3 -/
def devObj (tags : List Tag) (c1 : Cascade) (k : Key) : DevB := finDev tags c1 k (freshDev k)

theorem devObj_major (tags : List Tag) (c1 : Cascade) (k : Key) : (devObj tags c1 k).major = k.1 := by
  obtain ⟨M, mo⟩ := k; cases mo <;> rfl

theorem devObj_minor (tags : List Tag) (c1 : Cascade) (k : Key) : (devObj tags c1 k).minor = k.2 := by
  obtain ⟨M, mo⟩ := k; cases mo <;> rfl

theorem devObj_hasStab (tags : List Tag) (c1 : Cascade) (k : Key) : (devObj tags c1 k).hasStab = false := by
  obtain ⟨M, mo⟩ := k; cases mo <;> rfl

theorem devObj_toBranch (tags : List Tag) (c1 : Cascade) (k : Key) :
    (devObj tags c1 k).toBranch = .dev k.1 k.2 := by
  unfold DevB.toBranch; rw [devObj_major, devObj_minor]

theorem devObj_micro_some (tags : List Tag) (c1 : Cascade) (M m : Nat) :
    (devObj tags c1 (M, some m)).micro = maxMicro tags M m := rfl

theorem devObj_micro_none (tags : List Tag) (c1 : Cascade) (M : Nat) :
    (devObj tags c1 (M, none)).micro = -1 := rfl

theorem devObj_latest (tags : List Tag) (c1 : Cascade) (M : Nat) :
    (devObj tags c1 (M, none)).latestMinor =
      maxInts (maxInts (-1) (majorMinors tags M)) (minorsOf c1 M) := rfl

structure Fin3 (bs : List Branch) (tags : List Tag) (dst : Branch) (c1 : Cascade) (q : Key × BranchSet) : Prop where
  dev : q.2.dev = if Branch.dev q.1.1 q.1.2 ∈ bs then some (devObj tags c1 q.1) else none
  stbMem : ∀ st, q.2.stb = some st → st.toBranch ∈ bs ∧ (st.major, some st.minor) = q.1
  stbNone : q.2.stb = none → ∀ m u, q.1.2 = some m → Branch.stab q.1.1 m u ∉ bs
  hf : q.2.hf = (hfSlot bs dst q.1).map (evolveHf tags q.1)
  used : q.2.dev.isSome ∨ q.2.stb.isSome ∨ q.2.hf.isSome

theorem fin3_of {bs : List Branch} {dst : Branch} {c0 : Cascade} (r : Rep bs dst c0) (tags : List Tag) (c1 : Cascade)
    {p : Key × BranchSet} (hp : p ∈ c0) : Fin3 bs tags dst c1 (fin tags c1 p) := by
  have hE := r.entries p hp
  refine ⟨?_, ?_, ?_, ?_, ?_⟩
  · rw [fin_dev, fin_key, hE.dev]
    split <;> rfl
  · rw [fin_stb, fin_key]; exact hE.stbMem
  · rw [fin_stb, fin_key]; exact hE.stbNone
  · rw [fin_hf, fin_key, hE.hf]
  · rw [fin_dev, fin_stb, fin_hf]
    simpa using r.used p hp

/-- the final cascade -/
def c3of (tags : List Tag) (c0 : Cascade) : Cascade := c0.map (fin tags (c0.map (evolve tags)))

theorem c3_sorted {bs : List Branch} {dst : Branch} {c0 : Cascade} (r : Rep bs dst c0) (tags : List Tag) :
    Sorted (c3of tags c0) := by
  refine (sorted_iff_keys ?_).mpr r.sorted
  unfold c3of
  rw [List.map_map]
  apply List.map_congr_left
  intro p _
  exact fin_key _ _ _

theorem c3_entries {bs : List Branch} {dst : Branch} {c0 : Cascade} (r : Rep bs dst c0) (tags : List Tag) :
    ∀ q ∈ c3of tags c0, Fin3 bs tags dst (c0.map (evolve tags)) q := by
  intro q hq
  obtain ⟨p, hp, rfl⟩ := List.mem_map.mp hq
  exact fin3_of r tags _ hp

theorem c3_keys {bs : List Branch} {dst : Branch} {c0 : Cascade} (r : Rep bs dst c0) (tags : List Tag) :
    ∀ b ∈ bs, hotfixSkipped dst b = false → ∃ q ∈ c3of tags c0, q.1 = b.key := by
  intro b hb hs
  obtain ⟨p, hp, hk⟩ := r.keys b hb hs
  exact ⟨_, List.mem_map_of_mem hp, by rw [fin_key]; exact hk⟩

/-! ### branches read off the final cascade -/

theorem flatMap_congr' {α β : Type} {l : List α} {f g : α → List β} (h : ∀ a ∈ l, f a = g a) :
    l.flatMap f = l.flatMap g := by
  induction l with
  | nil => rfl
  | cons a l ih =>
    rw [List.flatMap_cons, List.flatMap_cons, h a List.mem_cons_self,
      ih (fun b hb => h b (List.mem_cons_of_mem _ hb))]

/-- at most one branch per line, lines increasing: the branches are increasing -/
theorem pairwise_flatMap_keys {c : Cascade} (hs : Sorted c) (g : Key × BranchSet → List Branch)
    (hk : ∀ p ∈ c, ∀ b ∈ g p, b.key = p.1) (h1 : ∀ p ∈ c, (g p).length ≤ 1) :
    (c.flatMap g).Pairwise (fun a b => keyLt a.key b.key) := by
  induction c with
  | nil => simp
  | cons p c ih =>
    rw [Sorted, List.pairwise_cons] at hs
    rw [List.flatMap_cons, List.pairwise_append]
    refine ⟨?_, ih hs.2 (fun q hq => hk q (List.mem_cons_of_mem _ hq))
      (fun q hq => h1 q (List.mem_cons_of_mem _ hq)), ?_⟩
    · have := h1 p List.mem_cons_self
      match hg : g p with
      | [] => simp
      | [x] => simp
      | x :: y :: r => rw [hg] at this; simp at this
    · intro a ha b hb
      obtain ⟨q, hq, hbq⟩ := List.mem_flatMap.mp hb
      rw [hk p List.mem_cons_self a ha, hk q (List.mem_cons_of_mem _ hq) b hbq]
      exact hs.1 q hq

theorem mem_devBranch {bs : List Branch} {tags : List Tag} {dst : Branch} {c1 : Cascade} {q : Key × BranchSet}
    (h : Fin3 bs tags dst c1 q) (b : Branch) :
    b ∈ devBranch q ↔ b = .dev q.1.1 q.1.2 ∧ b ∈ bs := by
  unfold devBranch
  rw [h.dev]
  by_cases hm : Branch.dev q.1.1 q.1.2 ∈ bs
  · simp only [hm, if_true, Option.map_some, Option.toList_some, List.mem_singleton, devObj_toBranch]
    constructor
    · rintro rfl; exact ⟨rfl, hm⟩
    · exact fun h => h.1
  · simp only [hm, if_false, Option.map_none, Option.toList_none, List.not_mem_nil, false_iff]
    rintro ⟨rfl, h⟩; exact hm h

theorem devBranch_key {bs : List Branch} {tags : List Tag} {dst : Branch} {c1 : Cascade} {q : Key × BranchSet}
    (h : Fin3 bs tags dst c1 q) : ∀ b ∈ devBranch q, b.key = q.1 := by
  intro b hb
  rw [((mem_devBranch h b).mp hb).1]
  rfl

theorem devBranch_len (q : Key × BranchSet) : (devBranch q).length ≤ 1 := by
  unfold devBranch; cases q.2.dev <;> simp

theorem mem_stbBranch {bs : List Branch} {tags : List Tag} {dst : Branch} {c1 : Cascade} {q : Key × BranchSet}
    (h : Fin3 bs tags dst c1 q)
    (hone : ∀ M m u u', Branch.stab M m u ∈ bs → Branch.stab M m u' ∈ bs → u = u') (b : Branch) :
    b ∈ stbBranch q.2 ↔ b.isStab = true ∧ b ∈ bs ∧ b.key = q.1 := by
  unfold stbBranch
  cases hst : q.2.stb with
  | none =>
    simp only [Option.map_none, Option.toList_none, List.not_mem_nil, false_iff]
    rintro ⟨hs, hb, hk⟩
    cases b with
    | stab M m u =>
      simp only [Branch.key] at hk
      have := h.stbNone hst m u (by rw [← hk])
      apply this
      rw [← hk]; exact hb
    | dev M m => simp [Branch.isStab] at hs
    | hotfix M m u => simp [Branch.isStab] at hs
  | some st =>
    obtain ⟨h1, h2⟩ := h.stbMem st hst
    simp only [Option.map_some, Option.toList_some, List.mem_singleton]
    constructor
    · rintro rfl; exact ⟨rfl, h1, h2⟩
    · rintro ⟨hs, hb, hk⟩
      cases b with
      | stab M m u =>
        simp only [Branch.key, ← h2, Prod.mk.injEq, Option.some.injEq] at hk
        obtain ⟨rfl, rfl⟩ := hk
        have := hone _ _ _ _ hb h1
        simp only [StabB.toBranch]
        rw [this]
      | dev M m => simp [Branch.isStab] at hs
      | hotfix M m u => simp [Branch.isStab] at hs

theorem stbBranch_key {bs : List Branch} {tags : List Tag} {dst : Branch} {c1 : Cascade} {q : Key × BranchSet}
    (h : Fin3 bs tags dst c1 q) : ∀ b ∈ stbBranch q.2, b.key = q.1 := by
  intro b hb
  unfold stbBranch at hb
  cases hst : q.2.stb with
  | none => simp [hst] at hb
  | some st =>
    simp only [hst, Option.map_some, Option.toList_some, List.mem_singleton] at hb
    subst hb
    exact (h.stbMem st hst).2

theorem stbBranch_isStab (s : BranchSet) : ∀ b ∈ stbBranch s, b.isStab = true := by
  intro b hb
  unfold stbBranch at hb
  cases hst : s.stb with
  | none => simp [hst] at hb
  | some st =>
    simp only [hst, Option.map_some, Option.toList_some, List.mem_singleton] at hb
    subst hb; rfl

theorem devBranch_isDev (q : Key × BranchSet) : ∀ b ∈ devBranch q, b.isDev = true := by
  intro b hb
  unfold devBranch at hb
  cases hd : q.2.dev with
  | none => simp [hd] at hb
  | some d =>
    simp only [hd, Option.map_some, Option.toList_some, List.mem_singleton] at hb
    subst hb; rfl

/-- the keys of the development branches of a repository are pairwise distinct -/
theorem nodup_dev_keys {bs : List Branch} (hnd : bs.Nodup) (Q : Branch → Bool) :
    ((bs.filter fun b => b.isDev && Q b).map Branch.key).Nodup := by
  rw [List.Nodup, List.pairwise_map]
  have h1 : (bs.filter fun b => b.isDev && Q b).Pairwise (· ≠ ·) := List.Pairwise.filter _ hnd
  refine h1.imp_of_mem ?_
  intro a b ha hb hab hk
  have ha' := (List.mem_filter.mp ha).2
  have hb' := (List.mem_filter.mp hb).2
  cases a <;> cases b <;> simp_all [Branch.isDev, Branch.key]

/-- the development branches of a sorted stretch of the final cascade are the sorted development branches
    of the repository whose line is in that stretch -/
theorem flatMap_dev_eq_sort {bs : List Branch} {tags : List Tag} {dst : Branch} (hnd : bs.Nodup) (L : Cascade) (hL : Sorted L) {c1 : Cascade}
    (hF : ∀ q ∈ L, Fin3 bs tags dst c1 q) (Q : Key → Bool)
    (hQ : ∀ b ∈ bs, b.isDev = true → Q b.key = true → ∃ q ∈ L, q.1 = b.key) (hQ' : ∀ q ∈ L, Q q.1 = true) :
    L.flatMap devBranch = sortByKey (bs.filter fun b => b.isDev && Q b.key) := by
  apply eq_sortByKey
  · exact pairwise_flatMap_keys hL devBranch (fun p hp => devBranch_key (hF p hp)) (fun p _ => devBranch_len p)
  · exact nodup_dev_keys hnd (fun b => Q b.key)
  · intro b
    rw [List.mem_flatMap, List.mem_filter]
    constructor
    · rintro ⟨q, hq, hb⟩
      obtain ⟨rfl, hbs⟩ := (mem_devBranch (hF q hq) b).mp hb
      exact ⟨hbs, by simp [Branch.isDev, Branch.key, hQ' q hq]⟩
    · rintro ⟨hb, hc⟩
      simp only [Bool.and_eq_true] at hc
      obtain ⟨q, hq, hk⟩ := hQ b hb hc.1 hc.2
      refine ⟨q, hq, (mem_devBranch (hF q hq) b).mpr ⟨?_, hb⟩⟩
      cases b with
      | dev M m => simp only [Branch.key] at hk; rw [hk]
      | stab M m u => simp [Branch.isDev] at hc
      | hotfix M m u => simp [Branch.isDev] at hc


end BertE.Cascade
