import BertE.Lemmas.CloseEvalBase
/-
Work package Close, the ref-based queue evaluation against the bookkeeping-based one, part 2: on a robot-made,
tie-free state `QV.evalQueues` (which reads only refs) IS `Flow.planQueues` (which reads the ghost bookkeeping).
-/
namespace BertE.Close
open BertE.Git BertE.Flow BertE.Select BertE.QV

/-- the integration branches `close_queued_pull_request` removes for the merged pull requests -/
def close_wgone (s : Sys) (sel : List Nat) : List (Dest × String) :=
  (s.queue.filter fun e => sel.contains e.pr).flatMap fun e => e.targets.map fun d => (d, e.src)

theorem close_evalQueues_unfold {s : Sys} {sel : List Nat} {wgone : List (Dest × String)} {paths : List (List Dest)}
    {r : Loc × List Ref} (h1 : cascadePaths s = some paths)
    (h2 : validate s.g s.remote (build s.g s.remote) paths = .ok []) (h3 : sel.isEmpty = false)
    (h4 : mergeQueues ⟨s.g, s.remote, []⟩ (removeUnmergeable sel (build s.g s.remote)) = some r) :
    evalQueues s sel wgone =
      ⟨r.1.g, [.pushAll (delRefs r.1.refs (r.2 ++ wgone.map (fun p => Ref.w p.1 p.2))) true], "Merged",
        s.queue.filter (fun e => !sel.contains e.pr)⟩ := by
  unfold evalQueues
  simp only [h1, h2, h3, h4, Bool.false_eq_true, if_false]

theorem close_eval_cascadePaths {s : Sys} (hcs : CascadeSide s) :
    cascadePaths s = some (mergePaths (devsPresent s) (stabsPresent s.remote)) := by
  unfold cascadePaths
  simp only [hcs.1, Bool.false_eq_true, if_false]

/-- the removed queue-integration branches, through `intsOf` -/
theorem close_mem_goneOf {c : Coll} (hn : (keys c).Nodup) {x : Ref} :
    x ∈ close_goneOf c ↔ ∃ d, ∃ i ∈ intsOf c d, x = Ref.qw i.pr d i.src := by
  unfold close_goneOf
  simp only [List.mem_flatMap, List.mem_map]
  constructor
  · rintro ⟨v, hv, i, hi, rfl⟩
    exact ⟨v.d, i, by rw [qv_intsOf_mem hn hv]; exact hi, rfl⟩
  · rintro ⟨d, i, hi, rfl⟩
    by_cases hd : d ∈ keys c
    · obtain ⟨v, hv, rfl⟩ := List.mem_map.mp hd
      rw [qv_intsOf_mem hn hv] at hi
      exact ⟨v, hv, i, hi, rfl⟩
    · rw [qv_intsOf_not_mem hd] at hi; cases hi

section
variable {s : Sys} (h : InvV s)
include h

/-- a version without `q/<version>` branch has no queued pull request -/
theorem close_intsFor_nokey {d : Dest} (hd : ¬ (s.remote.get (.q d)).isSome = true) : intsFor s d = [] := by
  have : entriesOn s d = [] := by
    rw [List.eq_nil_iff_forall_not_mem]
    intro e he
    obtain ⟨heq, hdt⟩ := mem_entriesOn.mp he
    exact hd (h.inv.q.qhas e heq d hdt)
  unfold intsFor
  rw [this]; rfl

/-- the collection built from the refs lists, per version, the queue-integration branches of the bookkeeping -/
theorem close_intsOf_build (hnt : NoTies s) (d : Dest) : intsOf (build s.g s.remote) d = intsFor s d := by
  have hc := close_build_matches h hnt
  by_cases hd : d ∈ keys (build s.g s.remote)
  · obtain ⟨v, hv, rfl⟩ := List.mem_map.mp hd
    rw [qv_intsOf_mem hc.nodup hv, hc.ints v hv]
  · rw [qv_intsOf_not_mem hd, close_intsFor_nokey h (fun hq => hd ((hc.mem d).mpr hq))]

/-- the queue-integration branches that remain after `_remove_unmergeable`, through the entries -/
theorem close_dropWhile_intsFor (sel : List Nat) (d : Dest) :
    (intsFor s d).dropWhile (fun i => !sel.contains i.pr) =
      ((entriesOn s d).reverse.dropWhile (fun e => !sel.contains e.pr)).map (close_mk (close_tip s) d) := by
  rw [close_intsFor_eq h.inv.q.base, List.dropWhile_map]
  rfl

omit h in
/-- under a downward-closed selection, every remaining queue-integration branch is of a selected pull request -/
theorem close_remaining_selected {sel : List Nat} (hdc : DownClosed s sel) (d : Dest) :
    ∀ e ∈ (entriesOn s d).reverse.dropWhile (fun e => !sel.contains e.pr), sel.contains e.pr = true := by
  intro e he
  have hpw : (entriesOn s d).reverse.Pairwise (fun a b : QEntry =>
      (fun e : QEntry => !sel.contains e.pr) a = false → (fun e : QEntry => !sel.contains e.pr) b = false) := by
    rw [List.pairwise_reverse]
    have hsub : (entriesOn s d).Sublist s.queue := List.filter_sublist
    apply (hdc.sublist hsub).imp_of_mem
    intro a b ha hb hab hb'
    simp only [Bool.not_eq_false'] at hb' ⊢
    exact hab hb' ⟨d, (mem_entriesOn.mp ha).2, (mem_entriesOn.mp hb).2⟩
  have := close_dropWhile_closed _ _ hpw e he
  simpa using this

/-- the first remaining queue-integration branch of a version is the one of the newest selected pull request on it -/
theorem close_first_remaining (sel : List Nat) (d : Dest) :
    ((intsFor s d).dropWhile (fun i => !sel.contains i.pr)).head? =
      (lastTargeting (s.queue.filter fun e => sel.contains e.pr) d).map (close_mk (close_tip s) d) := by
  rw [close_dropWhile_intsFor h, List.head?_map, close_head_dropWhile, close_eval_lastTargeting_eq]
  unfold entriesOn
  simp only [Bool.not_not]

/-- **The ref-based queue evaluation is the bookkeeping-based one** on a robot-made (`InvV`, `QSync`, `CascadeSide`),
    tie-free state whose commit graph is a git graph (`close_Antisym`), for a downward-closed selection that selects
    a queued pull request: one atomic pruning push each, with the same content as a map of refs; same graph, same
    bookkeeping afterwards, same outcome. -/
theorem close_evalQueues_eq_partial (ha : close_Antisym s.g) (hsync : QSync s) (hcs : CascadeSide s) (hnt : NoTies s)
    (sel : List Nat) (hdc : DownClosed s sel) (hne : (s.queue.filter fun e => sel.contains e.pr) ≠ []) :
    ∃ loc loc', (QV.evalQueues s sel (close_wgone s sel)).ops = [.pushAll loc true] ∧
      (planQueues s sel).ops = [.pushAll loc' true] ∧ (∀ x, loc.get x = loc'.get x) ∧
      (QV.evalQueues s sel (close_wgone s sel)).g = (planQueues s sel).g ∧
      (QV.evalQueues s sel (close_wgone s sel)).queue = (planQueues s sel).queue ∧
      (QV.evalQueues s sel (close_wgone s sel)).outcome = (planQueues s sel).outcome := by
  have hq := h.inv.q
  have hc := close_build_matches h hnt
  have hval := close_validate_of_matches h hsync hcs hc
  have hcp := close_eval_cascadePaths hcs
  generalize hes : s.queue.filter (fun e => sel.contains e.pr) = es at hne
  have hesq : ∀ e, e ∈ es ↔ e ∈ s.queue ∧ sel.contains e.pr = true := by
    intro e; rw [← hes]; exact List.mem_filter
  -- something is selected
  have hsel : sel.isEmpty = false := by
    cases es with
    | nil => exact absurd rfl hne
    | cons e _ =>
      have := ((hesq e).mp List.mem_cons_self).2
      cases sel with
      | nil => simp at this
      | cons _ _ => rfl
  -- `merge_queues`
  let p : QInt → Bool := fun i => !sel.contains i.pr
  have hn' : (keys (removeUnmergeable sel (build s.g s.remote))).Nodup := by
    rw [qv_keys_removeUnmergeable]; exact hc.nodup
  have hmem' : ∀ v' ∈ removeUnmergeable sel (build s.g s.remote), ∃ v ∈ build s.g s.remote,
      v'.d = v.d ∧ v'.master = v.master ∧ v'.ints = v.ints.dropWhile p := by
    intro v' hv'
    unfold removeUnmergeable at hv'
    obtain ⟨v, hvc, rfl⟩ := List.mem_map.mp hv'
    exact ⟨v, hvc, rfl, rfl, rfl⟩
  have hmaster : ∀ v' ∈ removeUnmergeable sel (build s.g s.remote), v'.master.isSome = true := by
    intro v' hv'
    obtain ⟨v, hvc, _, hm, _⟩ := hmem' v' hv'
    rw [hm, hc.master v hvc]
    exact (hc.mem v.d).mp (List.mem_map.mpr ⟨v, hvc, rfl⟩)
  have hpre : ∀ v' ∈ removeUnmergeable sel (build s.g s.remote), ∀ x ∈ v'.ints.head?,
      ∃ t, (Loc.mk s.g s.remote []).refs.get (.dest v'.d) = some t ∧ s.g.le t x.tip = true := by
    intro v' hv' x hx
    obtain ⟨v, hvc, hd, _, hi⟩ := hmem' v' hv'
    have hx1 : x ∈ v'.ints := List.mem_of_mem_head? hx
    rw [hi] at hx1
    have hx2 : x ∈ intsFor s v.d := by
      rw [← hc.ints v hvc]; exact (List.dropWhile_sublist p).subset hx1
    have hx3 := (close_mem_intsFor h).mp hx2
    obtain ⟨e, he, h1, h2, h3⟩ := close_qw_entry h hx3
    obtain ⟨c, t, hcq, ht, hle⟩ := hq.base.entry e he v.d h3
    have hcq' : s.remote.get (.qw e.pr v.d e.src) = some c := hcq
    rw [h1, h2, hx3] at hcq'
    simp only [Option.some.injEq] at hcq'
    subst hcq'
    exact ⟨t, by rw [hd]; exact ht, hle⟩
  obtain ⟨r, hr, hrg, hr2, hrother, hrdest⟩ := close_mergeQueues_exact ha h.inv.wf.g
    (removeUnmergeable sel (build s.g s.remote)) ⟨s.g, s.remote, []⟩ rfl hn' hmaster hpre
  have hev := close_evalQueues_unfold (wgone := close_wgone s sel) hcp hval hsel hr
  -- the bookkeeping side
  have hpq : planQueues s sel = ⟨s.g, [.pushAll (delRefs (es.foldl mergeEntry s.remote)
      (es.flatMap (fun e => e.targets.flatMap (fun d => [Ref.qw e.pr d e.src, Ref.w d e.src])))) true], "Merged",
      s.queue.filter (fun e => !sel.contains e.pr)⟩ := by
    unfold planQueues
    simp only [hes]
    rw [if_neg]
    simpa using hne
  rw [hev, hpq]
  refine ⟨_, _, rfl, rfl, ?_, hrg, rfl, rfl⟩
  -- the two contents, ref by ref
  have hget := Flow.mergeEntries_get hq.base es s.remote (fun e he => ((hesq e).mp he).1) (fun _ _ _ => rfl)
  have hother : ∀ x, (∀ d, x ≠ .dest d) → (es.foldl mergeEntry s.remote).get x = s.remote.get x :=
    fun x hx => mergeEntries_other es s.remote x hx
  have hints : ∀ d, intsOf (removeUnmergeable sel (build s.g s.remote)) d = (intsFor s d).dropWhile p := by
    intro d; rw [qv_intsOf_removeUnmergeable, close_intsOf_build h hnt]
  have hgoneA : ∀ x, x ∈ r.2 ↔ ∃ d, ∃ e ∈ (entriesOn s d).reverse.dropWhile (fun e => !sel.contains e.pr),
      x = Ref.qw e.pr d e.src := by
    intro x
    rw [hr2, close_mem_goneOf hn']
    constructor
    · rintro ⟨d, i, hi, rfl⟩
      rw [hints, close_dropWhile_intsFor h] at hi
      obtain ⟨e, he, rfl⟩ := List.mem_map.mp hi
      exact ⟨d, e, he, rfl⟩
    · rintro ⟨d, e, he, rfl⟩
      refine ⟨d, close_mk (close_tip s) d e, ?_, rfl⟩
      rw [hints, close_dropWhile_intsFor h]
      exact List.mem_map.mpr ⟨e, he, rfl⟩
  have hgoneB : ∀ x, x ∈ es.flatMap (fun e => e.targets.flatMap (fun d => [Ref.qw e.pr d e.src, Ref.w d e.src])) ↔
      ∃ e ∈ es, ∃ d ∈ e.targets, x = .qw e.pr d e.src ∨ x = .w d e.src := by
    intro x
    simp only [List.mem_flatMap, List.mem_cons, List.not_mem_nil, or_false]
  have hgoneW : ∀ x, x ∈ (close_wgone s sel).map (fun p => Ref.w p.1 p.2) ↔
      ∃ e ∈ es, ∃ d ∈ e.targets, x = .w d e.src := by
    intro x
    unfold close_wgone
    rw [hes]
    simp only [List.mem_map, List.mem_flatMap]
    constructor
    · rintro ⟨_, ⟨e, he, d, hd, rfl⟩, rfl⟩
      exact ⟨e, he, d, hd, rfl⟩
    · rintro ⟨e, he, d, hd, rfl⟩
      exact ⟨(d, e.src), ⟨e, he, d, hd, rfl⟩, rfl⟩
  -- membership in the two deletion lists is the same
  have hsame : ∀ x, x ∈ r.2 ++ (close_wgone s sel).map (fun p => Ref.w p.1 p.2) ↔
      x ∈ es.flatMap (fun e => e.targets.flatMap (fun d => [Ref.qw e.pr d e.src, Ref.w d e.src])) := by
    intro x
    rw [List.mem_append, hgoneA, hgoneW, hgoneB]
    constructor
    · rintro (⟨d, e, he, rfl⟩ | ⟨e, he, d, hd, rfl⟩)
      · have hsel' := close_remaining_selected hdc d e he
        have he' := mem_entriesOn.mp (List.mem_reverse.mp ((List.dropWhile_sublist _).subset he))
        exact ⟨e, (hesq e).mpr ⟨he'.1, hsel'⟩, d, he'.2, Or.inl rfl⟩
      · exact ⟨e, he, d, hd, Or.inr rfl⟩
    · rintro ⟨e, he, d, hd, rfl | rfl⟩
      · left
        obtain ⟨heq, hse⟩ := (hesq e).mp he
        refine ⟨d, e, ?_, rfl⟩
        apply close_mem_dropWhile
        · exact List.mem_reverse.mpr (mem_entriesOn.mpr ⟨heq, hd⟩)
        · simp only [hse, Bool.not_true]
      · right
        exact ⟨e, he, d, hd, rfl⟩
  intro x
  rw [get_delRefs, get_delRefs]
  by_cases hx : x ∈ es.flatMap (fun e => e.targets.flatMap (fun d => [Ref.qw e.pr d e.src, Ref.w d e.src]))
  · rw [if_pos ((hsame x).mpr hx), if_pos hx]
  · rw [if_neg (fun hh => hx ((hsame x).mp hh)), if_neg hx]
    by_cases hxd : ∃ d, x = .dest d
    · obtain ⟨d, rfl⟩ := hxd
      rw [hrdest d, hget d, hints, close_first_remaining h, hes]
      cases hl : lastTargeting es d with
      | none => rfl
      | some e =>
        obtain ⟨hees, hed⟩ := lastTargeting_mem hl
        obtain ⟨c, _, hcq, _, _⟩ := hq.base.entry e ((hesq e).mp hees).1 d hed
        simp only [Option.map_some, close_mk, close_tip_eq hcq]
        exact hcq.symm
    · have hxd' : ∀ d, x ≠ .dest d := fun d he => hxd ⟨d, he⟩
      rw [hrother x hxd', hother x hxd']

end

end BertE.Close
