import BertE.Lemmas.Full
/-
Work package Full2: what holds after the ONE exit of an admin job that `C01_full_step` excludes — the known finding
D19, a successful `delete_branch hotfix/x.y.z` while `q/x.y.z` (the queue of stabilization/x.y.z) exists.
Everything of the invariant survives except the queue invariant `QInv` (its clause `qhas`: a queued pull request has
the queue branch of each of its targets), and that one is lost exactly when a pull request is queued on that
stabilization branch.
-/
namespace BertE.Full2
open BertE.Git BertE.Flow BertE.Select BertE.Close BertE.Full BertE.Admin

/-- what remains of `FullInv` after the anomalous exit: everything but the queue invariant (`Inv.q`) and the
    position of the queue branches (`QSync`) -/
structure AfterAnomaly (w : World) : Prop where
  wf : w.sys.WF
  incl : w.sys.Incl
  vx : VX w.sys
  mono : close_Mono w.sys.g
  keys : KeysNodup w.sys.remote
  link : Link w.cfg w.host w.sys.queue
  hostPos : HostPos w.host
  cascadeStd : w.cfg.cascade = BertE.Cascade.Cfg.std

/-- deleting queue branches of stabilization branches keeps everything but the queue invariant -/
theorem full2_delStabQ {s : Sys} (h : SysInv s) (qs : List Ref) (hqs : ∀ r ∈ qs, ∃ M m u, r = .q (.stab M m u)) :
    ({ s with remote := delRefs s.remote qs } : Sys).WF ∧ ({ s with remote := delRefs s.remote qs } : Sys).Incl ∧
    VX { s with remote := delRefs s.remote qs } ∧ KeysNodup (delRefs s.remote qs) := by
  have hdest : ∀ d, (delRefs s.remote qs).get (.dest d) = s.remote.get (.dest d) := by
    intro d
    rw [get_delRefs, if_neg]
    intro hm
    obtain ⟨_, _, _, he⟩ := hqs _ hm
    cases he
  have hqw : ∀ pr d src, (delRefs s.remote qs).get (.qw pr d src) = s.remote.get (.qw pr d src) := by
    intro pr d src
    rw [get_delRefs, if_neg]
    intro hm
    obtain ⟨_, _, _, he⟩ := hqs _ hm
    cases he
  have hqdev : ∀ k, (delRefs s.remote qs).get (.q (devDest k)) = s.remote.get (.q (devDest k)) := by
    intro k
    rw [get_delRefs, if_neg]
    intro hm
    obtain ⟨_, _, _, he⟩ := hqs _ hm
    simp only [devDest, Ref.q.injEq] at he
    cases he
  refine ⟨⟨h.inv.wf.g, h.inv.wf.valid.delRefs qs, h.inv.wf.sorted, ?_⟩, h.inv.incl.delRefs qs, ⟨?_, ?_, ?_, ?_, ?_⟩,
    full2_delRefs_keys qs h.keys⟩
  · intro M m c hc
    have hc' : (delRefs s.remote qs).get (.dest (.dev M m)) = some c := hc
    rw [hdest] at hc'
    exact h.inv.wf.devsOK M m c hc'
  · exact h.vx.pos
  · intro pr d src hs
    have hs' : ((delRefs s.remote qs).get (.qw pr d src)).isSome = true := hs
    rw [hqw] at hs'
    exact h.vx.qwE pr d src hs'
  · intro k hk
    show ((delRefs s.remote qs).get _).isSome = true
    rw [hdest]; exact h.vx.devsHave k hk
  · intro d hs k hk hb
    show ((delRefs s.remote qs).get _).isSome = true
    rw [hqdev]
    refine h.vx.qUpper d ?_ k hk hb
    have hs' : ((delRefs s.remote qs).get (.q d)).isSome = true := hs
    rw [get_delRefs] at hs'
    split at hs'
    · cases hs'
    · exact hs'
  · intro M m u hs
    have hs' : ((delRefs s.remote qs).get (.dest (.stab M m u))).isSome = true := hs
    rw [hdest] at hs'
    exact h.vx.stabDev M m u hs'

theorem full2_afterAnomaly_mk {w : World} (h : FullInv w) (s2 : Sys) (T : BertE.Admin.Tags) (hwf : s2.WF) (hincl : s2.Incl)
    (hvx : VX s2) (hm : close_Mono s2.g) (hk : KeysNodup s2.remote) (hq : s2.queue = w.sys.queue) :
    AfterAnomaly (refresh { w with sys := s2, tags := T }) :=
  ⟨hwf, hincl, hvx, hm, hk,
    h.link.mono (hostExt_refresh { w with sys := s2, tags := T }) (fun e he => by
      have : e ∈ s2.queue := he
      rw [hq] at this; exact this),
    hostPos_refresh (w := { w with sys := s2, tags := T }) h.hostPos, h.cascadeStd⟩

/-- **After the anomalous exit (D19).** In a world that satisfies the invariant, a successful
    `delete_branch hotfix/x.y.z` while `q/x.y.z` exists leaves: well-formedness, forward-port inclusion, Close's `VX`,
    the commit numbering, distinct ref keys, the link to the host, positive ids, the cascade settings — i.e. every
    conjunct of `FullInv` except the queue invariant `Inv.q` (and `QSync`, which speaks of the same branches). The
    queue bookkeeping is untouched, `q/x.y.z` is gone; so `QInv` (clause `qhas`) IS lost as soon as a pull request
    is queued on stabilization/x.y.z — the later queue evaluations then rely on `validate()` alone. -/
theorem full2_deleteJob_anomaly {w : World} (h : FullInv w) (name : Ref) (ha : AdminAnomaly w (.deleteBranch name)) :
    AfterAnomaly (deleteJob w name).1 ∧
    ∃ M m u, name = .dest (.hotfix M m u) ∧ (deleteJob w name).1.sys.remote.get (.q (.stab M m u)) = none ∧
      (deleteJob w name).1.sys.queue = w.sys.queue ∧
      ((∃ e ∈ w.sys.queue, Dest.stab M m u ∈ e.targets) → ¬ QInv (deleteJob w name).1.sys) := by
  obtain ⟨hs, M, m, u, rfl, huq, hhas⟩ := ha
  have hinv := BertE.Admin.deleteBranch_inv w.cfg.cascade w.cfg.lits (repoOf w) (.dest (.hotfix M m u))
    (recognized w (.dest (.hotfix M m u)))
  obtain ⟨d, tip, hn, _, _, hq, _, hops⟩ := hinv.1 hs
  simp only [Ref.dest.injEq] at hn
  subst hn
  have hb : ((BertE.Admin.deleteBranch w.cfg.cascade w.cfg.lits (repoOf w) (.dest (.hotfix M m u))
      (recognized w (.dest (.hotfix M m u)))).outcome == .success) = true := by rw [hs]; rfl
  -- the repository event of the deletion is admissible: no queued pull request targets the hotfix branch
  have hadm : Adm w.sys (.deleteBranch (.hotfix M m u)) := by
    intro e he hd
    obtain ⟨c, _, hc, _, _⟩ := h.inv.q.base.entry e he _ hd
    have hk : Dest.hotfix M m u ∈ BertE.Admin.queueKeys (cloneHeads w.sys.remote) :=
      BertE.Admin.mem_queueKeys.mpr ⟨_, c, mem_of_get (by rw [cloneHeads_get]; exact hc), rfl⟩
    have := (BertE.Admin.hasVersionQueuedPrs_iff (g := (repoOf w).g)).mpr hk
    have hq' : BertE.Admin.hasVersionQueuedPrs (BertE.Admin.queuesOf (repoOf w).g (cloneHeads w.sys.remote))
        (.hotfix M m u) = false := hq huq
    rw [hq'] at this
    cases this
  have h1 : SysInv (Flow.step w.sys (.deleteBranch (.hotfix M m u))).1 := full2_step_sysInv h.sys _ hadm trivial
  have hget1 : (Flow.step w.sys (.deleteBranch (.hotfix M m u))).1.remote.get (.q (.stab M m u)) =
      w.sys.remote.get (.q (.stab M m u)) := by
    show (applyOps w.sys.g noRej w.sys.remote ((if w.sys.remote.has (.q (.hotfix M m u)) then
      [Op.delete (.q (.hotfix M m u))] else []) ++ [Op.delete (.dest (.hotfix M m u))])).get _ = _
    rw [deleteBranch_remote]
    simp
  -- what the job deletes besides: `q/x.y.z`
  have hhas' : (repoOf w).heads.has (BertE.Admin.delQueueRef (.hotfix M m u)) = true := by
    show RefMap.has (cloneHeads w.sys.remote) (.q (.stab M m u)) = true
    unfold RefMap.has at hhas ⊢
    rw [cloneHeads_get]; exact hhas
  have hclob : (qDeletions (BertE.Admin.deleteBranch w.cfg.cascade w.cfg.lits (repoOf w) (.dest (.hotfix M m u))
      (recognized w (.dest (.hotfix M m u)))).ops).filter
        (fun q => (Flow.step w.sys (.deleteBranch (.hotfix M m u))).1.remote.has q) = [.q (.stab M m u)] := by
    rw [hops]
    have huq' : (repoOf w).useQueue = true := huq
    have hcond : ((repoOf w).useQueue && (repoOf w).heads.has (BertE.Admin.delQueueRef (.hotfix M m u))) = true := by
      rw [huq', hhas']; rfl
    simp only [hcond, if_true]
    have hh : (Flow.step w.sys (.deleteBranch (.hotfix M m u))).1.remote.has (.q (.stab M m u)) = true := by
      unfold RefMap.has at hhas ⊢
      rw [hget1]; exact hhas
    split <;> simp [qDeletions, BertE.Admin.delQueueRef, hh]
  unfold deleteJob
  simp only [hb, hclob]
  obtain ⟨hwf, hincl, hvx, hkeys⟩ := full2_delStabQ h1 [.q (.stab M m u)]
    (fun r hr => by simp only [List.mem_singleton] at hr; exact ⟨M, m, u, hr⟩)
  have hqueue : (Flow.step w.sys (.deleteBranch (.hotfix M m u))).1.queue = w.sys.queue := rfl
  have hnone : (delRefs (Flow.step w.sys (.deleteBranch (.hotfix M m u))).1.remote [.q (.stab M m u)]).get
      (.q (.stab M m u)) = none := by
    rw [get_delRefs]; simp
  refine ⟨full2_afterAnomaly_mk h _ _ hwf hincl hvx h1.mono hkeys hqueue, M, m, u, rfl, hnone, hqueue, ?_⟩
  · rintro ⟨e, he, hd⟩ hq
    have := hq.qhas e he _ hd
    have this' : ((delRefs (Flow.step w.sys (.deleteBranch (.hotfix M m u))).1.remote [.q (.stab M m u)]).get
      (.q (.stab M m u))).isSome = true := this
    rw [hnone] at this'
    cases this'

end BertE.Full2
