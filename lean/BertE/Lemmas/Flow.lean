import BertE.Lemmas.Git
import BertE.Lemmas.RefMap
import BertE.Lemmas.Order
/- Lemmas about the clone-side computations (`Loc.merge`, the merge chains) and the remote's reaction
   to operations, as far as destination refs are concerned. -/
namespace BertE.Flow
open BertE.Git

def RefsValid (g : Graph) (m : RefMap) : Prop := ∀ r c, m.get r = some c → c < g.size

theorem RefsValid.mono {g g' : Graph} {m : RefMap} (h : RefsValid g m) (he : Extends g g') : RefsValid g' m :=
  fun r c hc => Nat.lt_of_lt_of_le (h r c hc) he.1

theorem RefsValid.set {g : Graph} {m : RefMap} (h : RefsValid g m) {r : Ref} {c : Commit} (hc : c < g.size) :
    RefsValid g (m.set r c) := by
  intro x y hy
  rw [RefMap.get_set] at hy
  by_cases hx : x = r
  · simp [hx] at hy; subst hy; exact hc
  · simp [hx] at hy; exact h x y hy

theorem RefsValid.del {g : Graph} {m : RefMap} (h : RefsValid g m) (r : Ref) : RefsValid g (m.del r) := by
  intro x y hy
  rw [RefMap.get_del] at hy
  by_cases hx : x = r
  · simp [hx] at hy
  · simp [hx] at hy; exact h x y hy

theorem RefsValid.delRefs {g : Graph} {m : RefMap} (h : RefsValid g m) (rs : List Ref) :
    RefsValid g (delRefs m rs) := by
  intro x y hy
  rw [get_delRefs] at hy
  by_cases hx : x ∈ rs
  · simp [hx] at hy
  · simp [hx] at hy; exact h x y hy

/-! ### `qOnly`: a stable sort of the `q/` refs — same elements -/

theorem mem_insBefore {α : Type} (lt : α → α → Bool) (x y : α) : ∀ (l : List α),
    y ∈ insBefore lt x l ↔ y = x ∨ y ∈ l
  | [] => by simp [insBefore]
  | z :: zs => by
    simp only [insBefore]
    split
    · simp [List.mem_cons]
    · rw [List.mem_cons, mem_insBefore lt x y zs, List.mem_cons]
      constructor
      · rintro (h | h | h)
        · exact Or.inr (Or.inl h)
        · exact Or.inl h
        · exact Or.inr (Or.inr h)
      · rintro (h | h | h)
        · exact Or.inr (Or.inl h)
        · exact Or.inl h
        · exact Or.inr (Or.inr h)

theorem mem_stableSort_aux {α : Type} (lt : α → α → Bool) (y : α) : ∀ (l acc : List α),
    y ∈ l.foldl (fun acc x => insBefore lt x acc) acc ↔ y ∈ acc ∨ y ∈ l
  | [], acc => by simp
  | x :: xs, acc => by
    rw [List.foldl_cons, mem_stableSort_aux lt y xs, mem_insBefore, List.mem_cons]
    constructor
    · rintro ((h | h) | h)
      · exact Or.inr (Or.inl h)
      · exact Or.inl h
      · exact Or.inr (Or.inr h)
    · rintro (h | h | h)
      · exact Or.inl (Or.inr h)
      · exact Or.inl (Or.inl h)
      · exact Or.inr h

theorem mem_stableSort {α : Type} (lt : α → α → Bool) (y : α) (l : List α) : y ∈ stableSort lt l ↔ y ∈ l := by
  unfold stableSort
  rw [mem_stableSort_aux]
  simp

/-- the elements of `qOnly m` are the `q/` refs of `m`, whatever the order -/
theorem mem_qOnly (m : RefMap) (r : Ref) :
    r ∈ qOnly m ↔ r ∈ qRaw m := by
  unfold qOnly
  rw [mem_stableSort, mem_stableSort]

/-- well-formed clone state -/
structure Loc.OK (l : Loc) : Prop where
  wf : l.g.WF
  valid : RefsValid l.g l.refs

theorem Loc.ask_g (l : Loc) : l.ask.2.g = l.g ∧ l.ask.2.refs = l.refs := by
  unfold Loc.ask
  cases l.orc <;> simp

/-- **`Loc.merge` post-condition.** A successful merge of `srcs` into branch `r` extends the graph,
    changes no other ref, and the new tip of `r` contains its old tip and every source. -/
theorem Loc.merge_spec {l l' : Loc} (hl : l.OK) {r : Ref} {srcs : List Commit}
    (hs : ∀ s ∈ srcs, s < l.g.size) (hm : l.merge r srcs = some l') :
    l'.OK ∧ Extends l.g l'.g ∧ (∀ x, x ≠ r → l'.refs.get x = l.refs.get x) ∧
    ∃ old new, l.refs.get r = some old ∧ l'.refs.get r = some new ∧
      l'.g.le old new = true ∧ ∀ s ∈ srcs, l'.g.le s new = true := by
  unfold Loc.merge at hm
  cases hr : l.refs.get r with
  | none => simp [hr] at hm
  | some tip =>
    have htip : tip < l.g.size := hl.valid r tip hr
    rw [hr] at hm
    simp only at hm
    cases ht : topHead l.g (tip :: srcs) with
    | some h =>
      rw [ht] at hm
      simp only [Option.some.injEq] at hm
      subst hm
      obtain ⟨hmem, hall⟩ := topHead_spec ht
      have hlt : h < l.g.size := by
        rcases List.mem_cons.mp hmem with rfl | hm'
        · exact htip
        · exact hs _ hm'
      refine ⟨⟨hl.wf, hl.valid.set hlt⟩, Extends.refl _, ?_, tip, h, rfl, ?_, ?_, ?_⟩
      · intro x hx; exact RefMap.get_set_ne _ _ hx
      · exact RefMap.get_set_eq _ _ _
      · exact hall tip List.mem_cons_self
      · intro s hs'; exact hall s (List.mem_cons_of_mem _ hs')
    | none =>
      rw [ht] at hm
      obtain ⟨hag, har⟩ := l.ask_g
      generalize hask : l.ask = a at hm hag har
      obtain ⟨ok, la⟩ := a
      simp only at hm hag har
      cases hmm : BertE.Git.merge la.g tip srcs ok with
      | mk g' res =>
        rw [hmm] at hm
        cases res with
        | none => simp at hm
        | some c =>
          simp only [Option.some.injEq] at hm
          subst hm
          rw [hag] at hmm
          obtain ⟨hwf', hext, hc, hle, hsrc⟩ := BertE.Git.merge_spec hl.wf htip hs hmm
          refine ⟨⟨hwf', ?_⟩, hext, ?_, tip, c, rfl, ?_, hle, hsrc⟩
          · simp only
            rw [har]
            exact (hl.valid.mono hext).set hc
          · intro x hx
            simp only
            rw [har]
            exact RefMap.get_set_ne _ _ hx
          · simp only
            exact RefMap.get_set_eq _ _ _

/-! ### `consecutive_merge` (option `no_octopus`): `Loc.merge1`, `Loc.seq2`, `Loc.merge2`, and the selector `Loc.mergeN` -/

theorem Loc.merge1_eq (l : Loc) (r : Ref) (c : Commit) :
    (∃ l', l.merge r [c] = some l' ∧ l.merge1 r c = (l', true)) ∨
    (l.merge r [c] = none ∧ l.merge1 r c = (l.ask.2, false)) := by
  unfold Loc.merge1
  cases h : l.merge r [c] with
  | some l' => exact Or.inl ⟨l', rfl, rfl⟩
  | none => exact Or.inr ⟨rfl, rfl⟩

/-- the branch is still there and no other ref has changed (no well-formedness needed) -/
def Loc.Kept (l l' : Loc) (r : Ref) : Prop :=
  l'.refs.has r = true ∧ ∀ x, x ≠ r → l'.refs.get x = l.refs.get x

theorem Loc.Kept.trans {l l1 l2 : Loc} {r : Ref} (h1 : Loc.Kept l l1 r) (h2 : Loc.Kept l1 l2 r) : Loc.Kept l l2 r :=
  ⟨h2.1, fun x hx => (h2.2 x hx).trans (h1.2 x hx)⟩

theorem Loc.merge_kept {l l' : Loc} {r : Ref} {srcs : List Commit} (h : l.merge r srcs = some l') :
    Loc.Kept l l' r := by
  unfold Loc.merge at h
  cases hr : l.refs.get r with
  | none => simp [hr] at h
  | some tip =>
    rw [hr] at h
    simp only at h
    cases ht : topHead l.g (tip :: srcs) with
    | some hd =>
      rw [ht] at h
      simp only [Option.some.injEq] at h
      subst h
      exact ⟨(RefMap.has_iff _ _).mpr ⟨hd, RefMap.get_set_eq _ _ _⟩, fun x hx => RefMap.get_set_ne _ _ hx⟩
    | none =>
      rw [ht] at h
      obtain ⟨_, har⟩ := l.ask_g
      generalize l.ask = a at h har
      obtain ⟨ok, la⟩ := a
      simp only at h har
      cases hmm : BertE.Git.merge la.g tip srcs ok with
      | mk g' res =>
        rw [hmm] at h
        cases res with
        | none => simp at h
        | some c =>
          simp only [Option.some.injEq] at h
          subst h
          refine ⟨(RefMap.has_iff _ _).mpr ⟨c, RefMap.get_set_eq _ _ _⟩, fun x hx => ?_⟩
          simp only
          rw [RefMap.get_set_ne _ _ hx, har]

theorem Loc.merge1_kept {l : Loc} {r : Ref} (c : Commit) (hr : l.refs.has r = true) :
    Loc.Kept l (l.merge1 r c).1 r := by
  rcases l.merge1_eq r c with ⟨l', hm, he⟩ | ⟨_, he⟩
  · rw [he]; exact Loc.merge_kept hm
  · rw [he]
    refine ⟨?_, fun x _ => by rw [l.ask_g.2]⟩
    simp only [l.ask_g.2]; exact hr

theorem Loc.seq2_kept {l : Loc} {r : Ref} (x y : Commit) (hr : l.refs.has r = true) :
    Loc.Kept l (l.seq2 r x y).1 r := by
  unfold Loc.seq2
  have h1 := Loc.merge1_kept (l := l) x hr
  simp only
  split
  · exact h1.trans (Loc.merge1_kept y h1.1)
  · exact h1

theorem Loc.merge2_kept {l l' : Loc} {r : Ref} {a b : Commit} (h : l.merge2 r a b = some l') : Loc.Kept l l' r := by
  unfold Loc.merge2 at h
  by_cases hr : l.refs.has r = true
  · simp only [hr, Bool.not_true, Bool.false_eq_true, if_false] at h
    have h1 := Loc.seq2_kept (l := l) a b hr
    split at h
    · simp only [Option.some.injEq] at h; subst h; exact h1
    · have h2 := Loc.seq2_kept (l := (l.seq2 r a b).1) b a h1.1
      split at h
      · simp only [Option.some.injEq] at h; subst h; exact h1.trans h2
      · cases h
  · simp [hr] at h

/-- `Loc.mergeN` changes no other ref and keeps the branch (whatever the strategy; no well-formedness needed) -/
theorem Loc.mergeN_kept {l l' : Loc} {n : Bool} {r : Ref} {a b : Commit} (h : l.mergeN n r a b = some l') :
    Loc.Kept l l' r := by
  unfold Loc.mergeN at h
  cases n with
  | true => exact Loc.merge2_kept h
  | false => exact Loc.merge_kept h

/-- as `Loc.merge_other` (Lemmas/Prs), for either strategy -/
theorem Loc.mergeN_other {l l' : Loc} {n : Bool} {r : Ref} {a b : Commit} (hm : l.mergeN n r a b = some l') :
    ∀ x, x ≠ r → l'.refs.get x = l.refs.get x := (Loc.mergeN_kept hm).2

/-- as `Loc.merge_refs` (Lemmas/Reset), for either strategy -/
theorem Loc.mergeN_refs {l l' : Loc} {n : Bool} {r : Ref} {a b : Commit} (h : l.mergeN n r a b = some l') :
    l'.refs.has r = true ∧ ∀ x, x ≠ r → l'.refs.get x = l.refs.get x := Loc.mergeN_kept h

theorem Loc.mergeD_kept {l l' : Loc} {n : Bool} {r : Ref} {a b : Commit} (h : l.mergeD n r a b = some l') :
    Loc.Kept l l' r := by
  unfold Loc.mergeD at h
  cases n with
  | true => exact Loc.merge2_kept h
  | false => exact Loc.merge_kept h

theorem Loc.mergeD_other {l l' : Loc} {n : Bool} {r : Ref} {a b : Commit} (hm : l.mergeD n r a b = some l') :
    ∀ x, x ≠ r → l'.refs.get x = l.refs.get x := (Loc.mergeD_kept hm).2

theorem Loc.mergeD_refs {l l' : Loc} {n : Bool} {r : Ref} {a b : Commit} (h : l.mergeD n r a b = some l') :
    l'.refs.has r = true ∧ ∀ x, x ≠ r → l'.refs.get x = l.refs.get x := Loc.mergeD_kept h

/-- what a sequence of 2-way merges into `r` does, successful or not -/
structure Loc.Step (l l' : Loc) (r : Ref) : Prop where
  ok : l'.OK
  ext : Extends l.g l'.g
  same : ∀ x, x ≠ r → l'.refs.get x = l.refs.get x
  grow : ∃ old new, l.refs.get r = some old ∧ l'.refs.get r = some new ∧ l'.g.le old new = true

/-- the branch `r` of `l` contains `c` -/
def Loc.Has (l : Loc) (r : Ref) (c : Commit) : Prop := ∃ new, l.refs.get r = some new ∧ l.g.le c new = true

theorem Loc.Step.trans {l l1 l2 : Loc} {r : Ref} (h1 : Loc.Step l l1 r) (h2 : Loc.Step l1 l2 r) : Loc.Step l l2 r := by
  obtain ⟨o, n, ho, hn, hon⟩ := h1.grow
  obtain ⟨o', n', ho', hn', hon'⟩ := h2.grow
  rw [hn] at ho'; simp only [Option.some.injEq] at ho'; subst ho'
  refine ⟨h2.ok, h1.ext.trans h2.ext, fun x hx => (h2.same x hx).trans (h1.same x hx), o, n', ho, hn', ?_⟩
  exact le_trans h2.ok.wf (h2.ext.le (h1.ok.valid _ _ hn) hon) hon'

theorem Loc.Has.step {l1 l2 : Loc} {r : Ref} {c : Commit} (hl1 : l1.OK) (h : l1.Has r c) (h2 : Loc.Step l1 l2 r) :
    l2.Has r c := by
  obtain ⟨n, hn, hcn⟩ := h
  obtain ⟨o', n', ho', hn', hon'⟩ := h2.grow
  rw [hn] at ho'; simp only [Option.some.injEq] at ho'; subst ho'
  exact ⟨n', hn', le_trans h2.ok.wf (h2.ext.le (hl1.valid _ _ hn) hcn) hon'⟩

theorem Loc.Step.of_merge {l l' : Loc} (hl : l.OK) {r : Ref} {srcs : List Commit}
    (hs : ∀ s ∈ srcs, s < l.g.size) (hm : l.merge r srcs = some l') :
    Loc.Step l l' r ∧ ∀ s ∈ srcs, l'.Has r s := by
  obtain ⟨hl', hext, hsame, old, new, ho, hn, hon, hsrc⟩ := Loc.merge_spec hl hs hm
  exact ⟨⟨hl', hext, hsame, old, new, ho, hn, hon⟩, fun s hs' => ⟨new, hn, hsrc s hs'⟩⟩

theorem Loc.merge1_step {l : Loc} (hl : l.OK) {r : Ref} {c : Commit} (hc : c < l.g.size)
    (hr : l.refs.has r = true) :
    Loc.Step l (l.merge1 r c).1 r ∧ ((l.merge1 r c).2 = true → (l.merge1 r c).1.Has r c) := by
  rcases l.merge1_eq r c with ⟨l', hm, he⟩ | ⟨_, he⟩
  · rw [he]
    have hs : ∀ s ∈ [c], s < l.g.size := by
      intro s hs; simp only [List.mem_cons, List.not_mem_nil, or_false] at hs; subst hs; exact hc
    obtain ⟨h1, h2⟩ := Loc.Step.of_merge hl hs hm
    exact ⟨h1, fun _ => h2 c List.mem_cons_self⟩
  · rw [he]
    obtain ⟨t, ht⟩ := (RefMap.has_iff _ _).mp hr
    obtain ⟨hg, hrf⟩ := l.ask_g
    refine ⟨⟨⟨by rw [hg]; exact hl.wf, by rw [hg, hrf]; exact hl.valid⟩, by rw [hg]; exact Extends.refl _,
      fun x _ => by rw [hrf], t, t, ht, by rw [hrf]; exact ht, ?_⟩, fun h => by cases h⟩
    rw [hg]; exact le_refl hl.wf (hl.valid _ _ ht)

theorem Loc.seq2_step {l : Loc} (hl : l.OK) {r : Ref} {x y : Commit} (hx : x < l.g.size) (hy : y < l.g.size)
    (hr : l.refs.has r = true) :
    Loc.Step l (l.seq2 r x y).1 r ∧
      ((l.seq2 r x y).2 = true → (l.seq2 r x y).1.Has r x ∧ (l.seq2 r x y).1.Has r y) := by
  unfold Loc.seq2
  obtain ⟨h1, h1c⟩ := Loc.merge1_step hl hx hr
  have hk1 := Loc.merge1_kept (l := l) x hr
  simp only
  split
  · rename_i hok
    obtain ⟨h2, h2c⟩ := Loc.merge1_step (l := (l.merge1 r x).1) h1.ok (Nat.lt_of_lt_of_le hy h1.ext.1) hk1.1
    exact ⟨h1.trans h2, fun h => ⟨(h1c hok).step h1.ok h2, h2c h⟩⟩
  · rename_i hok
    exact ⟨h1, fun h => absurd h hok⟩

/-- **`Loc.merge2` post-condition** (same shape as `Loc.merge_spec`): successful consecutive merges of `a` and `b`
    into branch `r` extend the graph, change no other ref, and the new tip of `r` contains its old tip, `a` and `b`
    - whichever of the two attempts went through, whatever git answered. -/
theorem Loc.merge2_spec {l l' : Loc} (hl : l.OK) {r : Ref} {a b : Commit}
    (hs : ∀ s ∈ [a, b], s < l.g.size) (hm : l.merge2 r a b = some l') :
    l'.OK ∧ Extends l.g l'.g ∧ (∀ x, x ≠ r → l'.refs.get x = l.refs.get x) ∧
    ∃ old new, l.refs.get r = some old ∧ l'.refs.get r = some new ∧
      l'.g.le old new = true ∧ ∀ s ∈ [a, b], l'.g.le s new = true := by
  have ha : a < l.g.size := hs a List.mem_cons_self
  have hb : b < l.g.size := hs b (List.mem_cons_of_mem _ List.mem_cons_self)
  have fin : ∀ {l' : Loc}, Loc.Step l l' r → l'.Has r a → l'.Has r b →
      l'.OK ∧ Extends l.g l'.g ∧ (∀ x, x ≠ r → l'.refs.get x = l.refs.get x) ∧
      ∃ old new, l.refs.get r = some old ∧ l'.refs.get r = some new ∧
        l'.g.le old new = true ∧ ∀ s ∈ [a, b], l'.g.le s new = true := by
    intro l' hst hha hhb
    obtain ⟨o, n, ho, hn, hon⟩ := hst.grow
    obtain ⟨na, hna, hla⟩ := hha
    obtain ⟨nb, hnb, hlb⟩ := hhb
    rw [hn] at hna hnb
    simp only [Option.some.injEq] at hna hnb
    subst hna; subst hnb
    refine ⟨hst.ok, hst.ext, hst.same, o, n, ho, hn, hon, ?_⟩
    intro s hs'
    simp only [List.mem_cons, List.not_mem_nil, or_false] at hs'
    rcases hs' with rfl | rfl
    · exact hla
    · exact hlb
  unfold Loc.merge2 at hm
  by_cases hr : l.refs.has r = true
  · simp only [hr, Bool.not_true, Bool.false_eq_true, if_false] at hm
    obtain ⟨h1, h1c⟩ := Loc.seq2_step hl ha hb hr
    have hk1 := Loc.seq2_kept (l := l) a b hr
    split at hm
    · rename_i hok
      simp only [Option.some.injEq] at hm; subst hm
      exact fin h1 (h1c hok).1 (h1c hok).2
    · obtain ⟨h2, h2c⟩ := Loc.seq2_step (l := (l.seq2 r a b).1) h1.ok (Nat.lt_of_lt_of_le hb h1.ext.1)
        (Nat.lt_of_lt_of_le ha h1.ext.1) hk1.1
      split at hm
      · rename_i hok
        simp only [Option.some.injEq] at hm; subst hm
        exact fin (h1.trans h2) (h2c hok).2 (h2c hok).1
      · cases hm
  · simp [hr] at hm

/-- **`Loc.mergeN` post-condition**: the post-condition of `Loc.merge_spec`, for either strategy. -/
theorem Loc.mergeN_spec {l l' : Loc} (hl : l.OK) {n : Bool} {r : Ref} {a b : Commit}
    (hs : ∀ s ∈ [a, b], s < l.g.size) (hm : l.mergeN n r a b = some l') :
    l'.OK ∧ Extends l.g l'.g ∧ (∀ x, x ≠ r → l'.refs.get x = l.refs.get x) ∧
    ∃ old new, l.refs.get r = some old ∧ l'.refs.get r = some new ∧
      l'.g.le old new = true ∧ ∀ s ∈ [a, b], l'.g.le s new = true := by
  unfold Loc.mergeN at hm
  cases n with
  | true => exact Loc.merge2_spec hl hs hm
  | false => exact Loc.merge_spec hl hs hm

/-- **`Loc.mergeD` post-condition**: the post-condition of `Loc.merge_spec`, for either strategy (the order in which
    `consecutive_merge` takes the two sources does not matter for it). -/
theorem Loc.mergeD_spec {l l' : Loc} (hl : l.OK) {n : Bool} {r : Ref} {a b : Commit}
    (hs : ∀ s ∈ [a, b], s < l.g.size) (hm : l.mergeD n r a b = some l') :
    l'.OK ∧ Extends l.g l'.g ∧ (∀ x, x ≠ r → l'.refs.get x = l.refs.get x) ∧
    ∃ old new, l.refs.get r = some old ∧ l'.refs.get r = some new ∧
      l'.g.le old new = true ∧ ∀ s ∈ [a, b], l'.g.le s new = true := by
  unfold Loc.mergeD at hm
  cases n with
  | false => exact Loc.merge_spec hl hs hm
  | true =>
    have hs' : ∀ s ∈ [b, a], s < l.g.size := by
      intro s h
      simp only [List.mem_cons, List.not_mem_nil, or_false] at h
      rcases h with rfl | rfl
      · exact hs _ (List.mem_cons_of_mem _ List.mem_cons_self)
      · exact hs _ List.mem_cons_self
    obtain ⟨h1, h2, h3, o, nw, ho, hn, hon, hsrc⟩ := Loc.merge2_spec hl hs' hm
    refine ⟨h1, h2, h3, o, nw, ho, hn, hon, ?_⟩
    intro s h
    simp only [List.mem_cons, List.not_mem_nil, or_false] at h
    rcases h with rfl | rfl
    · exact hsrc _ (List.mem_cons_of_mem _ List.mem_cons_self)
    · exact hsrc _ List.mem_cons_self

end BertE.Flow

namespace BertE.Flow
open BertE.Git

/-- forward-port inclusion on a ref map: everything on `a` is on every later `b` -/
def InclOn (g : Graph) (m : RefMap) : Prop :=
  ∀ a b : Dest, a.before b = true → ∀ ca cb, m.get (.dest a) = some ca → m.get (.dest b) = some cb →
    g.le ca cb = true

theorem pairwise_pick {α : Type} {R : α → α → Prop} {l : List α} (h : l.Pairwise R) {a b : α}
    (ha : a ∈ l) (hb : b ∈ l) (hne : a ≠ b) : R a b ∨ R b a := by
  induction l with
  | nil => cases ha
  | cons x xs ih =>
    rw [List.pairwise_cons] at h
    rcases List.mem_cons.mp ha with rfl | ha'
    · rcases List.mem_cons.mp hb with rfl | hb'
      · exact absurd rfl hne
      · exact Or.inl (h.1 b hb')
    · rcases List.mem_cons.mp hb with rfl | hb'
      · exact Or.inr (h.1 a ha')
      · exact ih h.2 ha' hb'

/-- what a merge of a pull request does to the destination refs `ts`, abstractly -/
structure DestUpdate (g g' : Graph) (m m' : RefMap) (ts : List Dest) : Prop where
  ext : Extends g g'
  same : ∀ d, d ∉ ts → m'.get (.dest d) = m.get (.dest d)
  grow : ∀ d ∈ ts, ∃ o n, m.get (.dest d) = some o ∧ m'.get (.dest d) = some n ∧ g'.le o n = true
  chain : ts.Pairwise (fun a b => ∀ na nb, m'.get (.dest a) = some na → m'.get (.dest b) = some nb →
            g'.le na nb = true)

/-- **Inclusion is preserved by a chained update of an upward-closed, ordered list of targets.** -/
theorem incl_of_destUpdate {g g' : Graph} {m m' : RefMap} {ts : List Dest}
    (hg' : g'.WF) (hv : RefsValid g m) (hincl : InclOn g m) (hu : DestUpdate g g' m m' ts)
    (hord : ts.Pairwise (fun a b => a.before b = true))
    (hclosed : ∀ t ∈ ts, ∀ b, t.before b = true → (m.get (.dest b)).isSome = true → b ∈ ts) :
    InclOn g' m' := by
  intro a b hab ca cb hca hcb
  by_cases ha : a ∈ ts
  · by_cases hb : b ∈ ts
    · have hne : a ≠ b := by
        intro he; subst he; rw [Dest.before_irrefl] at hab; cases hab
      have hboth : ts.Pairwise (fun x y => x.before y = true ∧
          ∀ na nb, m'.get (.dest x) = some na → m'.get (.dest y) = some nb → g'.le na nb = true) :=
        List.pairwise_and_iff.mpr ⟨hord, hu.chain⟩
      rcases pairwise_pick hboth ha hb hne with h | h
      · exact h.2 ca cb hca hcb
      · rw [Dest.before_asymm hab] at h; cases h.1
    · have hbm : m.get (.dest b) = some cb := by rw [← hu.same b hb]; exact hcb
      exact absurd (hclosed a ha b hab (by simp [hbm])) hb
  · have ham : m.get (.dest a) = some ca := by rw [← hu.same a ha]; exact hca
    by_cases hb : b ∈ ts
    · obtain ⟨o, n, ho, hn, hle⟩ := hu.grow b hb
      rw [hcb] at hn
      simp only [Option.some.injEq] at hn; subst hn
      have h1 : g.le ca o = true := hincl a b hab ca o ham ho
      have h1' : g'.le ca o = true := hu.ext.le (hv _ _ ho) h1
      exact le_trans hg' h1' hle
    · have hbm : m.get (.dest b) = some cb := by rw [← hu.same b hb]; exact hcb
      exact hu.ext.le (hv _ _ hbm) (hincl a b hab ca cb ham hbm)

/-- `mergeRest`: every remaining target receives (its old tip, the previous target's new tip, the
    integration branch); nothing else changes. -/
theorem mergeRest_spec {pr : PrInfo} : ∀ (ds : List Dest) {l l' : Loc} {prevD : Commit}, l.OK →
    prevD < l.g.size → ds.Nodup → mergeRest l pr prevD ds = some l' →
    l'.OK ∧ Extends l.g l'.g ∧
    (∀ x, (∀ d ∈ ds, x ≠ .dest d) → l'.refs.get x = l.refs.get x) ∧
    (∀ d ∈ ds, ∃ o n, l.refs.get (.dest d) = some o ∧ l'.refs.get (.dest d) = some n ∧
        l'.g.le o n = true ∧ l'.g.le prevD n = true) ∧
    ds.Pairwise (fun a b => ∀ na nb, l'.refs.get (.dest a) = some na → l'.refs.get (.dest b) = some nb →
        l'.g.le na nb = true)
  | [], l, l', prevD, hl, _, _, hm => by
    simp only [mergeRest, Option.some.injEq] at hm
    subst hm
    exact ⟨hl, Extends.refl _, fun _ _ => rfl, (fun d hd => nomatch hd), List.Pairwise.nil⟩
  | d :: ds, l, l', prevD, hl, hp, hnd, hm => by
    simp only [mergeRest] at hm
    cases hw : l.refs.get (.w d pr.src) with
    | none => simp [hw] at hm
    | some wc =>
      rw [hw] at hm
      simp only at hm
      cases hm1 : l.mergeD pr.noOct (.dest d) prevD wc with
      | none => simp [hm1] at hm
      | some l1 =>
        rw [hm1] at hm
        simp only at hm
        have hsrcs : ∀ s ∈ [prevD, wc], s < l.g.size := by
          intro s hs
          simp only [List.mem_cons, List.not_mem_nil, or_false] at hs
          rcases hs with rfl | rfl
          · exact hp
          · exact hl.valid _ _ hw
        obtain ⟨hl1, hext1, hsame1, o, n, ho, hn, hon, hsn⟩ := Loc.mergeD_spec hl hsrcs hm1
        rw [hn] at hm
        simp only at hm
        have hnlt : n < l1.g.size := hl1.valid _ _ hn
        rw [List.nodup_cons] at hnd
        obtain ⟨hl', hext2, hsame2, hgrow2, hchain2⟩ := mergeRest_spec ds hl1 hnlt hnd.2 hm
        have hdn : l'.refs.get (.dest d) = some n := by
          rw [hsame2 (.dest d) (fun d' hd' he => by
            simp only [Ref.dest.injEq] at he; subst he; exact hnd.1 hd')]
          exact hn
        refine ⟨hl', hext1.trans hext2, ?_, ?_, ?_⟩
        · intro x hx
          rw [hsame2 x (fun d' hd' => hx d' (List.mem_cons_of_mem _ hd'))]
          exact hsame1 x (hx d List.mem_cons_self)
        · intro d' hd'
          rcases List.mem_cons.mp hd' with rfl | hd''
          · exact ⟨o, n, ho, hdn, hext2.le hnlt hon,
              hext2.le hnlt (hsn prevD List.mem_cons_self)⟩
          · obtain ⟨o', n', ho', hn', hon', hpn'⟩ := hgrow2 d' hd''
            have hne : (Ref.dest d') ≠ .dest d := by
              intro he; simp only [Ref.dest.injEq] at he; subst he; exact hnd.1 hd''
            refine ⟨o', n', by rw [← hsame1 _ hne]; exact ho', hn', hon', ?_⟩
            have h1 : l'.g.le prevD n = true := hext2.le hnlt (hsn prevD List.mem_cons_self)
            exact le_trans hl'.wf h1 hpn'
        · rw [List.pairwise_cons]
          refine ⟨?_, hchain2⟩
          intro b hb na nb hna hnb
          obtain ⟨o', n', _, hn', _, hpn'⟩ := hgrow2 b hb
          rw [hdn] at hna; simp only [Option.some.injEq] at hna; subst hna
          rw [hn'] at hnb; simp only [Option.some.injEq] at hnb; subst hnb
          exact hpn'

end BertE.Flow

namespace BertE.Flow
open BertE.Git

theorem InclOn.of_same {g : Graph} {m m' : RefMap} (h : InclOn g m)
    (hs : ∀ d, m'.get (.dest d) = m.get (.dest d)) : InclOn g m' := by
  intro a b hab ca cb hca hcb
  rw [hs] at hca hcb
  exact h a b hab ca cb hca hcb

/-- dropping refs (destination branches included) cannot break inclusion: there are only fewer pairs -/
theorem InclOn.of_sub {g : Graph} {m m' : RefMap} (h : InclOn g m)
    (hs : ∀ d c, m'.get (.dest d) = some c → m.get (.dest d) = some c) : InclOn g m' := by
  intro a b hab ca cb hca hcb
  exact h a b hab ca cb (hs _ _ hca) (hs _ _ hcb)

theorem InclOn.extends {g g' : Graph} {m : RefMap} (h : InclOn g m) (hv : RefsValid g m)
    (he : Extends g g') : InclOn g' m := by
  intro a b hab ca cb hca hcb
  exact he.le (hv _ _ hcb) (h a b hab ca cb hca hcb)

theorem InclOn.delRefs {g : Graph} {m : RefMap} (h : InclOn g m) (rs : List Ref) : InclOn g (delRefs m rs) := by
  apply h.of_sub
  intro d c hc
  rw [get_delRefs] at hc
  by_cases hx : Ref.dest d ∈ rs
  · simp [hx] at hc
  · simpa [hx] using hc

/-- an operation that cannot break inclusion, whatever the remote does with it -/
def Op.Safe (g : Graph) : Op → Prop
  | .push ups => ∀ rc ∈ ups, rc.1.isDest = false
  | .pushAll loc prune => prune = true ∧ InclOn g loc
  | .delete _ => True

theorem push_fold_dest (g : Graph) (rej : Ref → Bool) (ups : List (Ref × Commit))
    (hups : ∀ rc ∈ ups, rc.1.isDest = false) (m : RefMap) (d : Dest) :
    (ups.foldl (fun m rc => if accepts g m rc.1 rc.2 && !rej rc.1 then m.set rc.1 rc.2 else m) m).get (.dest d)
      = m.get (.dest d) := by
  induction ups generalizing m with
  | nil => rfl
  | cons rc ups ih =>
    simp only [List.foldl_cons]
    rw [ih (fun x hx => hups x (List.mem_cons_of_mem _ hx))]
    have hnd : rc.1.isDest = false := hups rc List.mem_cons_self
    split
    · apply RefMap.get_set_ne
      intro he; rw [← he] at hnd; simp [Ref.isDest] at hnd
    · rfl

/-- **A safe operation preserves inclusion — accepted, rejected in part (non-atomic push) or as a whole.** -/
theorem applyOp_incl {g : Graph} {remote : RefMap} (rej : Ref → Bool) {op : Op}
    (h : InclOn g remote) (hs : op.Safe g) : InclOn g (applyOp g rej remote op) := by
  cases op with
  | push ups =>
    apply h.of_same
    intro d
    exact push_fold_dest g rej ups hs remote d
  | pushAll loc prune =>
    obtain ⟨hp, hl⟩ := hs
    subst hp
    simp only [applyOp]
    split
    · simpa using hl
    · exact h
  | delete r =>
    simp only [applyOp]
    split
    · exact h
    · apply h.of_sub
      intro d c hc
      rw [RefMap.get_del] at hc
      by_cases hx : Ref.dest d = r
      · simp [hx] at hc
      · simpa [hx] using hc

theorem applyOps_incl {g : Graph} (rej : Ref → Bool) : ∀ (ops : List Op) {remote : RefMap},
    InclOn g remote → (∀ op ∈ ops, op.Safe g) → InclOn g (applyOps g rej remote ops)
  | [], _, h, _ => h
  | op :: ops, remote, h, hs => by
    simp only [applyOps, List.foldl_cons]
    exact applyOps_incl rej ops (applyOp_incl rej h (hs op List.mem_cons_self))
      (fun o ho => hs o (List.mem_cons_of_mem _ ho))

end BertE.Flow

namespace BertE.Flow
open BertE.Git

theorem Loc.OK.delRefs {l : Loc} (h : l.OK) (rs : List Ref) : Loc.OK { l with refs := delRefs l.refs rs } :=
  ⟨h.wf, h.valid.delRefs rs⟩

/-- **The direct merge only emits safe operations**: pushes of robot refs, deletions of queue branches and
    one atomic pruning push whose content satisfies inclusion. -/
theorem directMerge_safe {s : Sys} {l4 : Loc} {pr : PrInfo} {sc : Commit} {ts : List Dest} {pre : List Op}
    (hl : l4.OK) (hsc : sc < l4.g.size) (hincl : InclOn l4.g l4.refs)
    (hord : ts.Pairwise (fun a b => a.before b = true))
    (hclosed : ∀ t ∈ ts, ∀ b, t.before b = true → (l4.refs.get (.dest b)).isSome = true → b ∈ ts)
    (hpre : ∀ g, ∀ op ∈ pre, op.Safe g) :
    ∀ op ∈ (directMerge s l4 pr sc ts pre).ops, op.Safe (directMerge s l4 pr sc ts pre).g := by
  have hdel : ∀ (g : Graph) (qs : List Ref), ∀ op ∈ qs.map Op.delete, op.Safe g := by
    intro g qs op hop
    simp only [List.mem_map] at hop
    obtain ⟨r, _, rfl⟩ := hop
    trivial
  have hpq : ∀ (g : Graph) (qs : List Ref), ∀ op ∈ pre ++ qs.map Op.delete, op.Safe g := by
    intro g qs op hop
    rcases List.mem_append.mp hop with h | h
    · exact hpre g op h
    · exact hdel g qs op h
  unfold directMerge
  generalize hqs : (if s.useQueue then qOnly l4.refs else []) = qs
  simp only
  have hl5 : Loc.OK { l4 with refs := delRefs l4.refs qs } := hl.delRefs qs
  have hqd : ∀ d, (delRefs l4.refs qs).get (.dest d) = l4.refs.get (.dest d) := by
    intro d
    rw [get_delRefs]
    have : Ref.dest d ∉ qs := by
      rw [← hqs]
      split
      · rw [mem_qOnly]; unfold qRaw
        simp only [List.mem_map, List.mem_filter, not_exists, not_and]
        intro x hx hxe
        rw [hxe] at hx
        simp at hx
      · simp
    simp [this]
  cases ts with
  | nil => exact hpq _ qs
  | cons d1 ds =>
    simp only
    cases hm1 : Loc.merge { l4 with refs := delRefs l4.refs qs } (.dest d1) [sc] with
    | none => exact hpq _ qs
    | some l6 =>
      simp only
      have hs1 : ∀ x ∈ [sc], x < l4.g.size := by
        intro x hx; simp only [List.mem_cons, List.not_mem_nil, or_false] at hx; subst hx; exact hsc
      obtain ⟨hl6, hext1, hsame1, o1, n1, ho1, hn1, hon1, _⟩ := Loc.merge_spec hl5 hs1 hm1
      rw [hn1]
      simp only
      cases hm2 : mergeRest l6 pr n1 ds with
      | none => exact hpq _ qs
      | some l7 =>
        simp only
        intro op hop
        rcases List.mem_append.mp hop with h | h
        · exact hpq _ qs op h
        · simp only [List.mem_cons, List.not_mem_nil, or_false] at h
          subst h
          refine ⟨rfl, InclOn.delRefs ?_ _⟩
          have hn1lt : n1 < l6.g.size := hl6.valid _ _ hn1
          have hnd := pairwise_before_nodup hord
          rw [List.nodup_cons] at hnd
          obtain ⟨hl7, hext2, hsame2, hgrow2, hchain2⟩ := mergeRest_spec ds hl6 hn1lt hnd.2 hm2
          have hd1 : l7.refs.get (.dest d1) = some n1 := by
            rw [hsame2 (.dest d1) (fun d' hd' he => by
              simp only [Ref.dest.injEq] at he; subst he; exact hnd.1 hd')]
            exact hn1
          have hupd : DestUpdate l4.g l7.g (delRefs l4.refs qs) l7.refs (d1 :: ds) := by
            refine ⟨hext1.trans hext2, ?_, ?_, ?_⟩
            · intro d hd
              have hne1 : d ≠ d1 := fun he => hd (by subst he; exact List.mem_cons_self)
              rw [hsame2 (.dest d) (fun d' hd' he => by
                simp only [Ref.dest.injEq] at he; subst he
                exact hd (List.mem_cons_of_mem _ hd'))]
              exact hsame1 _ (by intro he; simp only [Ref.dest.injEq] at he; exact hne1 he)
            · intro d hd
              rcases List.mem_cons.mp hd with rfl | hd'
              · exact ⟨o1, n1, ho1, hd1, hext2.le hn1lt hon1⟩
              · obtain ⟨o, n, ho, hn, hon, _⟩ := hgrow2 d hd'
                have hne : (Ref.dest d) ≠ .dest d1 := by
                  intro he; simp only [Ref.dest.injEq] at he; subst he; exact hnd.1 hd'
                exact ⟨o, n, by rw [← hsame1 _ hne]; exact ho, hn, hon⟩
            · rw [List.pairwise_cons]
              refine ⟨?_, hchain2⟩
              intro b hb na nb hna hnb
              obtain ⟨_, n', _, hn', _, hpn'⟩ := hgrow2 b hb
              rw [hd1] at hna; simp only [Option.some.injEq] at hna; subst hna
              rw [hn'] at hnb; simp only [Option.some.injEq] at hnb; subst hnb
              exact hpn'
          have hincl5 : InclOn l4.g (delRefs l4.refs qs) := hincl.of_same hqd
          refine incl_of_destUpdate hl7.wf hl5.valid hincl5 hupd hord ?_
          intro t ht b hb hbs
          rw [hqd] at hbs
          exact hclosed t ht b hb hbs

end BertE.Flow

namespace BertE.Flow
open BertE.Git

/-- what the preparation of integration branches may do: extend the graph, change only `w/` refs -/
structure WOnly (l l' : Loc) : Prop where
  ok : l'.OK
  ext : Extends l.g l'.g
  dests : ∀ x, (∀ d src, x ≠ .w d src) → l'.refs.get x = l.refs.get x

theorem WOnly.refl {l : Loc} (h : l.OK) : WOnly l l := ⟨h, Extends.refl _, fun _ _ => rfl⟩

theorem WOnly.trans {a b c : Loc} (h1 : WOnly a b) (h2 : WOnly b c) : WOnly a c :=
  ⟨h2.ok, h1.ext.trans h2.ext, fun x hx => by rw [h2.dests x hx, h1.dests x hx]⟩

theorem createW_wonly (pr : PrInfo) : ∀ (ds : List Dest) {l : Loc}, l.OK → WOnly l (createW l pr ds)
  | [], l, hl => WOnly.refl hl
  | d :: ds, l, hl => by
    simp only [createW]
    cases hw : l.refs.get (.w d pr.src) with
    | some _ => simp only; exact createW_wonly pr ds hl
    | none =>
      cases ht : l.refs.get (.dest d) with
      | none => simp only; exact createW_wonly pr ds hl
      | some t =>
        simp only
        have h1 : WOnly l { l with refs := l.refs.set (.w d pr.src) t } :=
          ⟨⟨hl.wf, hl.valid.set (hl.valid _ _ ht)⟩, Extends.refl _,
            fun x hx => RefMap.get_set_ne _ _ (hx d pr.src)⟩
        exact h1.trans (createW_wonly pr ds h1.ok)

theorem updateW_wonly (pr : PrInfo) : ∀ (ds : List Dest) {l : Loc} {prev : Commit} {done : List Ref},
    l.OK → prev < l.g.size → WOnly l (updateW l pr prev ds done).1
  | [], l, _, _, hl, _ => WOnly.refl hl
  | d :: ds, l, prev, done, hl, hp => by
    simp only [updateW]
    cases ht : l.refs.get (.dest d) with
    | none => exact WOnly.refl hl
    | some t =>
      simp only
      cases hm : l.mergeN pr.noOct (.w d pr.src) t prev with
      | none => exact WOnly.refl hl
      | some l' =>
        simp only
        have hs : ∀ x ∈ [t, prev], x < l.g.size := by
          intro x hx
          simp only [List.mem_cons, List.not_mem_nil, or_false] at hx
          rcases hx with rfl | rfl
          · exact hl.valid _ _ ht
          · exact hp
        obtain ⟨hl', hext, hsame, _, n, _, hn, _, _⟩ := Loc.mergeN_spec hl hs hm
        have h1 : WOnly l l' := ⟨hl', hext, fun x hx => hsame x (hx d pr.src)⟩
        rw [hn]
        simp only
        exact h1.trans (updateW_wonly pr ds hl' (hl'.valid _ _ hn))

theorem tipsOf_mem {refs : RefMap} {rs : List Ref} {rc : Ref × Commit} (h : rc ∈ tipsOf refs rs) : rc.1 ∈ rs := by
  unfold tipsOf at h
  simp only [List.mem_filterMap] at h
  obtain ⟨r, hr, hrc⟩ := h
  cases hg : refs.get r with
  | none => simp [hg] at hrc
  | some c => simp [hg] at hrc; rw [← hrc]; exact hr

theorem push_tipsOf_safe (g : Graph) (refs : RefMap) (rs : List Ref) (h : ∀ r ∈ rs, r.isDest = false) :
    (Op.push (tipsOf refs rs)).Safe g := by
  intro rc hrc
  exact h _ (tipsOf_mem hrc)

theorem createQ_safe (g : Graph) : ∀ (ds : List Dest) (l : Loc), ∀ op ∈ (createQ l ds).2, op.Safe g
  | [], _, op, h => by simp [createQ] at h
  | d :: ds, l, op, h => by
    simp only [createQ] at h
    cases hq : l.refs.get (.q d) with
    | some _ => rw [hq] at h; exact createQ_safe g ds l op h
    | none =>
      cases ht : l.refs.get (.dest d) with
      | none => rw [hq, ht] at h; exact createQ_safe g ds l op h
      | some t =>
        rw [hq, ht] at h
        simp only [List.mem_cons] at h
        rcases h with rfl | h
        · intro rc hrc
          simp only [List.mem_cons, List.not_mem_nil, or_false] at hrc
          subst hrc; rfl
        · exact createQ_safe g ds _ op h

/-- entering the queue only pushes `q/` and `q/w/` refs -/
theorem enqueue_safe {s : Sys} {l4 : Loc} {pr : PrInfo} {ts : List Dest} {pre : List Op}
    (hpre : ∀ g, ∀ op ∈ pre, op.Safe g) :
    ∀ op ∈ (enqueue s l4 pr ts pre).ops, op.Safe (enqueue s l4 pr ts pre).g := by
  have hpq : ∀ (g : Graph), ∀ op ∈ pre ++ (createQ l4 ts).2, op.Safe g := by
    intro g op hop
    rcases List.mem_append.mp hop with h | h
    · exact hpre g op h
    · exact createQ_safe g ts l4 op h
  unfold enqueue
  generalize hc : createQ l4 ts = cq at hpq
  obtain ⟨l5, qops⟩ := cq
  simp only at hpq ⊢
  cases ts with
  | nil => exact hpq _
  | cons d1 ds =>
    simp only
    cases l5.refs.get (.other pr.src) with
    | none => exact hpq _
    | some sc' =>
      simp only
      cases l5.merge (.q d1) [sc'] with
      | none => exact hpq _
      | some l6 =>
        simp only
        cases l6.refs.get (.q d1) with
        | none => exact hpq _
        | some q1 =>
          simp only
          cases queueRest { l6 with refs := l6.refs.set (.qw pr.id d1 pr.src) q1 } pr q1 ds with
          | none => exact hpq _
          | some l8 =>
            simp only
            intro op hop
            rcases List.mem_append.mp hop with h | h
            · exact hpq _ op h
            · simp only [List.mem_cons, List.not_mem_nil, or_false] at h
              subst h
              apply push_tipsOf_safe
              intro r hr
              simp only [List.mem_append, List.mem_map, List.map_cons, List.mem_cons] at hr
              rcases hr with (rfl | ⟨d, _, rfl⟩) | (rfl | ⟨d, _, rfl⟩) <;> rfl

end BertE.Flow
