import BertE.Model.Flow
/- Association-list lemmas for `RefMap` (lookup after set / del) and for the remote's reaction to operations. -/
namespace BertE.Flow
open BertE.Git

namespace RefMap

@[simp] theorem get_nil (r : Ref) : get [] r = none := rfl

theorem get_cons (p : Ref × Commit) (m : RefMap) (r : Ref) :
    get (p :: m) r = if r = p.1 then some p.2 else get m r := by
  unfold get
  obtain ⟨k, v⟩ := p
  simp only [List.lookup_cons]
  by_cases h : r = k
  · subst h; simp
  · have : (r == k) = false := by simp [h]
    simp [this, h]

theorem get_del (m : RefMap) (r x : Ref) : get (del m r) x = if x = r then none else get m x := by
  induction m with
  | nil => simp [del]
  | cons p m ih =>
    unfold del at *
    by_cases hp : p.1 = r
    · have : (p.1 != r) = false := by simp [hp]
      rw [List.filter_cons, this]
      simp only [Bool.false_eq_true, if_false]
      rw [ih, get_cons]
      by_cases hx : x = r
      · simp [hx]
      · have : x ≠ p.1 := by rw [hp]; exact hx
        simp [hx, this]
    · have : (p.1 != r) = true := by simp [hp]
      rw [List.filter_cons, this]
      simp only [if_true]
      rw [get_cons, get_cons, ih]
      by_cases hx : x = r
      · subst hx
        have : x ≠ p.1 := fun h => hp h.symm
        simp [this]
      · simp [hx]

theorem get_set (m : RefMap) (r : Ref) (c : Commit) (x : Ref) :
    get (set m r c) x = if x = r then some c else get m x := by
  unfold set
  rw [get_cons, get_del]
  by_cases hx : x = r <;> simp [hx]

theorem get_set_eq (m : RefMap) (r : Ref) (c : Commit) : get (set m r c) r = some c := by
  rw [get_set]; simp

theorem get_set_ne (m : RefMap) {r x : Ref} (c : Commit) (h : x ≠ r) : get (set m r c) x = get m x := by
  rw [get_set]; simp [h]

theorem get_del_ne (m : RefMap) {r x : Ref} (h : x ≠ r) : get (del m r) x = get m x := by
  rw [get_del]; simp [h]

theorem get_del_eq (m : RefMap) (r : Ref) : get (del m r) r = none := by
  rw [get_del]; simp

theorem has_iff (m : RefMap) (r : Ref) : has m r = true ↔ ∃ c, get m r = some c := by
  unfold has
  cases get m r <;> simp

/-- every value stored in the map -/
def vals (m : RefMap) : List Commit := m.map (·.2)

theorem get_mem {m : RefMap} {r : Ref} {c : Commit} (h : get m r = some c) : (r, c) ∈ m := by
  induction m with
  | nil => simp at h
  | cons p m ih =>
    rw [get_cons] at h
    by_cases hr : r = p.1
    · simp [hr] at h
      subst hr; subst h
      exact List.mem_cons_self
    · simp [hr] at h
      exact List.mem_cons_of_mem _ (ih h)

end RefMap

theorem get_delRefs (m : RefMap) (rs : List Ref) (x : Ref) :
    (delRefs m rs).get x = if x ∈ rs then none else m.get x := by
  unfold delRefs
  induction rs generalizing m with
  | nil => simp
  | cons r rs ih =>
    simp only [List.foldl_cons]
    rw [ih, RefMap.get_del]
    by_cases h1 : x ∈ rs
    · simp [h1]
    · by_cases h2 : x = r
      · simp [h2]
      · simp [h1, h2]

end BertE.Flow
