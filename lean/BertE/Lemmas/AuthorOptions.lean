import BertE.Model.AuthorOptions
namespace BertE.AuthorOptions

theorem lookup_dictSet {β : Type} (m : List (String × β)) (k : String) (v : β) (x : String) :
    (dictSet m k v).lookup x = if x = k then some v else m.lookup x := by
  unfold dictSet
  simp only [List.lookup_cons]
  by_cases hx : x = k
  · subst hx; simp
  · have : (x == k) = false := by simp [hx]
    rw [this]
    simp only [hx, if_false]
    induction m with
    | nil => rfl
    | cons p m ih =>
      obtain ⟨a, b⟩ := p
      by_cases ha : a = k
      · subst ha
        have h1 : ((a, b).1 != a) = false := by simp
        rw [List.filter_cons, h1]
        simp only [Bool.false_eq_true, if_false]
        rw [ih, List.lookup_cons]
        have : (x == a) = false := by simp [hx]
        rw [this]
      · have h1 : ((a, b).1 != k) = true := by simp [ha]
        rw [List.filter_cons, h1]
        simp only [if_true, List.lookup_cons]
        cases (x == a)
        · exact ih
        · rfl

/-- the user's own names, as the mapping resolves them: the LAST entry for that user wins -/
def ownNames : Raw → String → Option (List String)
  | [], _ => none
  | (u, names) :: rest, user =>
    match ownNames rest user with
    | some l => some l
    | none => if u = user then some names else none

theorem lookup_map_mem (bl : List String) (names : List String) (key : String) :
    ((bl.map (fun k => (k, names.contains k))).lookup key).getD false = (bl.contains key && names.contains key) := by
  induction bl with
  | nil => simp
  | cons b bl ih =>
    simp only [List.map_cons, List.lookup_cons]
    by_cases h : key = b
    · subst h; simp
    · have : (key == b) = false := by simp [h]
      rw [this]
      simp only [List.contains_cons, this, Bool.false_or]
      exact ih

theorem deserialize_spec (bl : List String) : ∀ (raw : Raw) (acc res : Opts), deserialize bl raw acc = some res →
    ∀ user key, authorBypass res user key =
      match ownNames raw user with
      | some names => bl.contains key && names.contains key
      | none => authorBypass acc user key
  | [], acc, res, h, user, key => by
    simp only [deserialize, Option.some.injEq] at h
    subst h; rfl
  | (u, names) :: rest, acc, res, h, user, key => by
    simp only [deserialize] at h
    split at h
    · have ih := deserialize_spec bl rest _ res h user key
      rw [ih]
      simp only [ownNames]
      cases ownNames rest user with
      | some l => rfl
      | none =>
        simp only
        unfold authorBypass
        rw [lookup_dictSet]
        by_cases hu : user = u
        · subst hu
          simp only [if_true]
          exact lookup_map_mem bl names key
        · have : ¬ u = user := fun he => hu he.symm
          simp only [hu, if_false, this]
    · cases h

end BertE.AuthorOptions
