import BertE.Lemmas.CascadeAdd
/- Phases 2 and 3: `update_versions` over the tags and `_update_major_versions` are entry-wise maps of the
   cascade (the keys and the stabilization slots never change); the only failure is a stabilization
   branch that a tag of its line (or the destination hotfix branch) makes obsolete. -/
namespace BertE.Cascade
open Spec

abbrev tagHf (t : Tag) : Int := tagHfrev Cfg.std t

/-- what `update_versions(t)` does to one item -/
def applyTag (t : Tag) (p : Key × BranchSet) : Key × BranchSet :=
  if p.1 = (t.major, some t.minor) then (p.1, tagOnLine t (tagHf t) p.2)
  else if p.1 = (t.major, none) then (p.1, tagOnMajor t p.2)
  else p

/-- the two `raise DeprecatedStabilizationBranch` on the item of the line, for a tag of micro `u` -/
def errAt (s : BranchSet) (u : Nat) : Bool :=
  (match s.hf, s.stb with
   | some h, some st => decide (st.micro = h.micro)
   | _, _ => false) ||
  (match s.stb with
   | some st => decide (st.micro ≤ u)
   | none => false)

def tagErr (c : Cascade) (t : Tag) : Bool :=
  match get? c (t.major, some t.minor) with
  | some s => errAt s t.micro
  | none => false

theorem applyTag_key (t : Tag) (p : Key × BranchSet) : (applyTag t p).1 = p.1 := by
  unfold applyTag; split
  · rfl
  · split <;> rfl

theorem setAt_setAt (c : Cascade) (t : Tag) :
    setAt (setAt c (t.major, some t.minor) (tagOnLine t (tagHf t))) (t.major, none) (tagOnMajor t)
      = c.map (applyTag t) := by
  unfold setAt
  rw [List.map_map]
  apply List.map_congr_left
  intro p _
  simp only [Function.comp, applyTag]
  by_cases h1 : p.1 = (t.major, some t.minor)
  · have : ¬ ((t.major, some t.minor) = ((t.major, none) : Key)) := by simp
    simp [h1]
  · simp only [h1, if_false]

theorem map_applyTag_of_absent {c : Cascade} {t : Tag}
    (h1 : get? c (t.major, some t.minor) = none) (h2 : get? c (t.major, none) = none) :
    c.map (applyTag t) = c := by
  have h1' := get?_none.mp h1
  have h2' := get?_none.mp h2
  conv => rhs; rw [← List.map_id c]
  apply List.map_congr_left
  intro p hp
  simp [applyTag, h1' p hp, h2' p hp]

/-- **one `update_versions`** -/
theorem updateVersions_eq (c : Cascade) (t : Tag) :
    updateVersions Cfg.std c t =
      if tagErr c t then .error .deprecatedStabilizationBranch else .ok (c.map (applyTag t)) := by
  unfold updateVersions tagErr
  cases h1 : get? c (t.major, some t.minor) with
  | none =>
    cases h2 : get? c (t.major, none) with
    | none => simp [h1, h2, map_applyTag_of_absent h1 h2]
    | some s2 => simp [h1, h2, setAt_setAt]
  | some s =>
    obtain ⟨dev, stb, hf⟩ := s
    simp only [h1, Option.isNone_some, Bool.false_and, Bool.false_eq_true, if_false, Option.bind_some,
      setAt_setAt, errAt]
    cases hf <;> cases stb <;> simp
    rename_i h st
    by_cases e1 : st.micro = h.micro
    · simp [e1]
    · simp [e1]

theorem get?_map {c : Cascade} {F : Key × BranchSet → Key × BranchSet} (hF : ∀ p, (F p).1 = p.1) (k : Key) :
    get? (c.map F) k = (c.find? (fun p => p.1 == k)).map (fun p => (F p).2) := by
  unfold get?
  induction c with
  | nil => rfl
  | cons p c ih =>
    simp only [List.map_cons, List.find?_cons, hF]
    by_cases h : p.1 == k
    · simp [h]
    · simp only [h]
      exact ih

theorem errAt_tagOnLine (t : Tag) (x : Int) (s : BranchSet) (u : Nat) :
    errAt (tagOnLine t x s) u = errAt s u := by
  unfold errAt tagOnLine
  cases s.hf <;> cases s.stb <;> simp
  split <;> rfl

theorem errAt_tagOnMajor (t : Tag) (s : BranchSet) (u : Nat) :
    errAt (tagOnMajor t s) u = errAt s u := by
  unfold errAt tagOnMajor
  rfl

theorem tagErr_map (c : Cascade) (t' t : Tag) : tagErr (c.map (applyTag t')) t = tagErr c t := by
  unfold tagErr
  rw [get?_map (applyTag_key t')]
  unfold get?
  cases c.find? (fun p => p.1 == (t.major, some t.minor)) with
  | none => rfl
  | some p =>
    simp only [Option.map_some]
    unfold applyTag
    split
    · exact errAt_tagOnLine _ _ _ _
    · split
      · exact errAt_tagOnMajor _ _ _
      · rfl

/-- **all the tags** -/
theorem readTags_eq (tags : List Tag) : ∀ c : Cascade,
    readTags Cfg.std c tags =
      if tags.any (tagErr c) then .error .deprecatedStabilizationBranch
      else .ok (c.map fun p => tags.foldl (fun p t => applyTag t p) p) := by
  induction tags with
  | nil => intro c; simp [readTags]
  | cons t ts ih =>
    intro c
    unfold readTags
    rw [updateVersions_eq]
    by_cases h : tagErr c t = true
    · simp [h]
    · simp only [h, Bool.false_eq_true, if_false, List.any_cons, Bool.false_or]
      rw [ih]
      have : ts.any (tagErr (c.map (applyTag t))) = ts.any (tagErr c) := by
        have : tagErr (c.map (applyTag t)) = tagErr c := funext (tagErr_map c t)
        rw [this]
      rw [this]
      simp only [List.map_map, List.foldl_cons]
      rfl

/-! ### closed form of what the tags do to one item -/

def lineMicros (tags : List Tag) (M m : Nat) : List Int :=
  (tags.filter fun t => t.major == M && t.minor == m).map fun t => (t.micro : Int)

def majorMinors (tags : List Tag) (M : Nat) : List Int :=
  (tags.filter fun t => t.major == M).map fun t => (t.minor : Int)

def hfRevs (tags : List Tag) (M m u : Nat) : List Int :=
  (tags.filter fun t => t.major == M && t.minor == m && t.micro == u).map
    fun t => ((t.hfrev.getD 0 : Nat) : Int) + 1

def evolveDev (tags : List Tag) (k : Key) (d : DevB) : DevB :=
  { d with
    micro := match k.2 with
      | some m => maxInts d.micro (lineMicros tags k.1 m)
      | none => d.micro
    latestMinor := match k.2 with
      | some _ => d.latestMinor
      | none => maxInts d.latestMinor (majorMinors tags k.1) }

def evolveHf (tags : List Tag) (k : Key) (h : HfB) : HfB :=
  { h with
    hfrev := match k.2 with
      | some m => maxInts h.hfrev (hfRevs tags k.1 m h.micro)
      | none => h.hfrev }

def evolve (tags : List Tag) (p : Key × BranchSet) : Key × BranchSet :=
  (p.1, ⟨p.2.dev.map (evolveDev tags p.1), p.2.stb, p.2.hf.map (evolveHf tags p.1)⟩)

theorem tagHf_eq (t : Tag) : tagHf t + 1 = ((t.hfrev.getD 0 : Nat) : Int) + 1 := by
  unfold tagHf tagHfrev
  cases t.hfrev <;> simp [Cfg.std]

theorem evolve_nil (p : Key × BranchSet) : evolve [] p = p := by
  obtain ⟨⟨M, mo⟩, dev, stb, hf⟩ := p
  cases mo <;> cases dev <;> cases hf <;>
    simp [evolve, evolveDev, evolveHf, lineMicros, majorMinors, hfRevs, maxInts]

theorem evolve_cons (t : Tag) (ts : List Tag) (p : Key × BranchSet) :
    evolve (t :: ts) p = evolve ts (applyTag t p) := by
  obtain ⟨⟨M, mo⟩, dev, stb, hf⟩ := p
  unfold applyTag
  by_cases h1 : ((M, mo) : Key) = (t.major, some t.minor)
  · simp only [Prod.mk.injEq] at h1
    obtain ⟨rfl, rfl⟩ := h1
    simp only [if_true, evolve, tagOnLine, Option.map_map]
    congr 2
    · cases dev with
      | none => rfl
      | some d =>
        simp [evolveDev, lineMicros, List.filter_cons, maxInts_cons, Int.max_comm]
    · cases hf with
      | none => rfl
      | some h =>
        simp only [Option.map_some, Option.some.injEq, evolveHf, hfRevs, List.filter_cons, beq_self_eq_true,
          Bool.true_and, Function.comp]
        by_cases hu : h.micro = t.micro
        · simp [hu, maxInts_cons, ← tagHf_eq, Int.max_comm]
        · have : (t.micro == h.micro) = false := by simp; omega
          simp [hu, this]
  · simp only [h1, if_false]
    by_cases h2 : ((M, mo) : Key) = (t.major, none)
    · simp only [Prod.mk.injEq] at h2
      obtain ⟨rfl, rfl⟩ := h2
      simp only [if_true, evolve, tagOnMajor, Option.map_map]
      congr 2
      cases dev with
      | none => rfl
      | some d =>
        simp [evolveDev, majorMinors, List.filter_cons, maxInts_cons, Int.max_comm]
    · simp only [h2, if_false, evolve]
      have hk : ∀ m, mo = some m → ¬ (t.major = M ∧ t.minor = m) := by
        rintro m rfl ⟨rfl, rfl⟩; exact h1 rfl
      have hk2 : mo = none → t.major ≠ M := by
        rintro rfl rfl; exact h2 rfl
      congr 2
      · cases dev with
        | none => rfl
        | some d =>
          cases mo with
          | none =>
            have := hk2 rfl
            simp [evolveDev, majorMinors, List.filter_cons, this]
          | some m =>
            have := hk m rfl
            have hb : (t.major == M && t.minor == m) = false := by
              simp only [Bool.and_eq_false_iff, beq_eq_false_iff_ne]
              by_cases e : t.major = M
              · right; exact fun e' => this ⟨e, e'⟩
              · left; exact e
            simp [evolveDev, lineMicros, List.filter_cons, hb]
      · cases hf with
        | none => rfl
        | some h =>
          cases mo with
          | none => simp [evolveHf]
          | some m =>
            have := hk m rfl
            have hb : (t.major == M && t.minor == m && t.micro == h.micro) = false := by
              simp only [Bool.and_eq_false_iff, beq_eq_false_iff_ne]
              by_cases e : t.major = M
              · left; right; exact fun e' => this ⟨e, e'⟩
              · left; left; exact e
            simp [evolveHf, hfRevs, List.filter_cons, hb]

theorem foldl_applyTag (tags : List Tag) (p : Key × BranchSet) :
    tags.foldl (fun p t => applyTag t p) p = evolve tags p := by
  induction tags generalizing p with
  | nil => exact (evolve_nil p).symm
  | cons t ts ih => rw [List.foldl_cons, ih, evolve_cons]

/-- **Phase 2**, closed form -/
theorem readTags_evolve (tags : List Tag) (c : Cascade) :
    readTags Cfg.std c tags =
      if tags.any (tagErr c) then .error .deprecatedStabilizationBranch else .ok (c.map (evolve tags)) := by
  rw [readTags_eq]
  simp only [foldl_applyTag]

/-! ### `_update_major_versions` -/

def umvEntry (all : Cascade) (p : Key × BranchSet) : Key × BranchSet :=
  match p.1.2 with
  | some _ => p
  | none => (p.1, { p.2 with dev := p.2.dev.map fun d =>
      { d with latestMinor := maxInts d.latestMinor (minorsOf all d.major) } })

theorem umvLoop_eq (all : Cascade) : ∀ c : Cascade, (∀ p ∈ c, p.1.2 = none → p.2.dev.isSome) →
    umvLoop all c = .ok (c.map (umvEntry all)) := by
  intro c
  induction c with
  | nil => intro _; rfl
  | cons p c ih =>
    intro h
    obtain ⟨⟨M, mo⟩, s⟩ := p
    have ih' := ih (fun q hq => h q (List.mem_cons_of_mem _ hq))
    cases mo with
    | some m => simp [umvLoop, ih', umvEntry]
    | none =>
      have := h _ List.mem_cons_self rfl
      cases hd : s.dev with
      | none => simp [hd] at this
      | some d => simp [umvLoop, ih', umvEntry, hd]

end BertE.Cascade
