import BertE.Lemmas.SelectBase
/- Composition of the system model with the queue-evaluation model, part 2: what the invariant of the system
   model says of the collection — hotfix entries are alone, every other entry goes through the queue of the
   greatest development branch that has a queue, which is what `_extract_pr_ids` reads. -/
namespace BertE.Select
open BertE.Git BertE.Flow

/-- the queued pull requests that target `d`, oldest first -/
def entriesOn (s : Sys) (d : Dest) : List QEntry := s.queue.filter fun e => e.targets.contains d

theorem idsOn_eq (s : Sys) (d : Dest) : idsOn s d = ((entriesOn s d).map (·.pr)).reverse := rfl

theorem mem_entriesOn {s : Sys} {d : Dest} {e : QEntry} : e ∈ entriesOn s d ↔ e ∈ s.queue ∧ d ∈ e.targets := by
  unfold entriesOn
  rw [List.mem_filter, List.contains_iff_mem]

/-- the development branches that have a queue, in cascade order -/
def devKeys (s : Sys) : List Key := s.devs.filter fun k => (queueDests s.remote).contains (devDest k)

/-- the greatest development branch that has a queue -/
def gDev (s : Sys) : Option Key := (devKeys s).getLast?

theorem mem_devKeys {s : Sys} {k : Key} : k ∈ devKeys s ↔ k ∈ s.devs ∧ devDest k ∈ queueDests s.remote := by
  unfold devKeys
  rw [List.mem_filter, List.contains_iff_mem]

/-! ### entries -/

/-- a pull request on a hotfix branch targets nothing else -/
theorem hotfix_alone {s : Sys} (hq : QueueInv s) {e : QEntry} (he : e ∈ s.queue) {d d' : Dest}
    (hd : d ∈ e.targets) (hf : isHf d = true) (hd' : d' ∈ e.targets) : d' = d := by
  rcases Queue.pairwise_mem (hq.ordered e he) hd hd' with h | h | h
  · exact h.symm
  · cases d <;> simp [isHf] at hf
    simp [Dest.before] at h
  · obtain ⟨M, m, hb⟩ := Dest.before_right_dev h
    subst hb; cases hf

theorem last_sorted {ks : List Key} (hs : SortedKeys ks) {g : Key} (hg : ks.getLast? = some g) :
    ∀ k ∈ ks, k = g ∨ keyLt k g = true := by
  intro k hk
  obtain ⟨ys, hsplit⟩ := List.getLast?_eq_some_iff.mp hg
  rw [hsplit] at hs hk
  unfold SortedKeys at hs
  rw [List.pairwise_append] at hs
  rcases List.mem_append.mp hk with h | h
  · exact Or.inr (hs.2.2 k h g (List.mem_singleton.mpr rfl))
  · exact Or.inl (List.mem_singleton.mp h)

theorem gDev_mem {s : Sys} {g : Key} (hg : gDev s = some g) : g ∈ devKeys s :=
  List.mem_of_getLast? hg

section
variable {s : Sys} (h : Inv s) (hv : Validated s)
include h hv

theorem dest_present_of_queueDest {d : Dest} (hd : d ∈ queueDests s.remote) :
    (s.remote.get (.dest d)).isSome = true := h.q.qdest d (hv.master d hd)

theorem dev_mem_of_queueDest {k : Key} (hd : devDest k ∈ queueDests s.remote) : k ∈ s.devs := by
  have := dest_present_of_queueDest h hv hd
  cases hc : s.remote.get (.dest (devDest k)) with
  | none => rw [hc] at this; cases this
  | some c => exact h.wf.devsOK k.1 k.2 c hc

/-- a version that has a queue and is not a hotfix version is the greatest development version that has a
    queue, or before it in the cascade -/
theorem below_gDev {d : Dest} (hd : d ∈ queueDests s.remote) (hf : isHf d = false) :
    ∃ g, gDev s = some g ∧ (d = devDest g ∨ d.before (devDest g) = true) := by
  have hsorted : SortedKeys (devKeys s) := h.wf.sorted.sublist List.filter_sublist
  -- a development branch that has a queue and is d or after d
  have hk : ∃ k ∈ devKeys s, d = devDest k ∨ d.before (devDest k) = true := by
    cases d with
    | hotfix _ _ _ => cases hf
    | dev M m =>
      exact ⟨(M, m), mem_devKeys.mpr ⟨dev_mem_of_queueDest h hv (k := (M, m)) hd, hd⟩, Or.inl rfl⟩
    | stab M m u =>
      have hdev := hv.stabDev _ hd M m u rfl
      have hb : (Dest.stab M m u).before (devDest (M, some m)) = true := by
        simp [Dest.before, devDest, keyLe]
      exact ⟨(M, some m), mem_devKeys.mpr ⟨hdev, hv.upper _ hd _ hdev hb⟩, Or.inr hb⟩
  obtain ⟨k, hkm, hkd⟩ := hk
  cases hg : gDev s with
  | none =>
    unfold gDev at hg
    rw [List.getLast?_eq_none_iff] at hg
    rw [hg] at hkm; cases hkm
  | some g =>
    refine ⟨g, rfl, ?_⟩
    rcases last_sorted hsorted hg k hkm with rfl | hlt
    · exact hkd
    · right
      have hb : (devDest k).before (devDest g) = true := by rw [before_devDest]; exact hlt
      rcases hkd with rfl | hkd
      · exact hb
      · exact Dest.before_trans hkd hb

/-- the greatest development branch that has a queue is the last development branch of the cascade -/
theorem gDev_max {g : Key} (hg : gDev s = some g) : ∀ k ∈ s.devs, k = g ∨ keyLt k g = true := by
  intro k hk
  have hsorted : SortedKeys (devKeys s) := h.wf.sorted.sublist List.filter_sublist
  have hgm := mem_devKeys.mp (gDev_mem hg)
  by_cases hlt : keyLt g k = true
  · have hb : (devDest g).before (devDest k) = true := by rw [before_devDest]; exact hlt
    have hkq := hv.upper _ hgm.2 k hk hb
    rcases last_sorted hsorted hg k (mem_devKeys.mpr ⟨hk, hkq⟩) with rfl | h2
    · exact Or.inl rfl
    · rw [keyLt_asymm hlt] at h2; cases h2
  · by_cases he : k = g
    · exact Or.inl he
    · right
      have : keyLt g k = false := by simpa using hlt
      exact keyLt_total this (fun h' => he h'.symm)

/-- every queued pull request that is not on a hotfix branch is on the queue of the greatest development
    branch that has a queue -/
theorem targets_gDev {e : QEntry} (he : e ∈ s.queue) {d : Dest} (hd : d ∈ e.targets) (hf : isHf d = false) :
    ∃ g, gDev s = some g ∧ devDest g ∈ e.targets := by
  have hqd : d ∈ queueDests s.remote := by
    have := h.q.qhas e he d hd
    cases hc : s.remote.get (.q d) with
    | none => rw [hc] at this; cases this
    | some c => exact mem_queueDests_of_q hc
  obtain ⟨g, hg, hcase⟩ := below_gDev h hv hqd hf
  refine ⟨g, hg, ?_⟩
  rcases hcase with rfl | hb
  · exact hd
  · exact h.q.base.closed e he d hd _ hb
      (dest_present_of_queueDest h hv (mem_devKeys.mp (gDev_mem hg)).2)

/-- the targets of a queued pull request have a queue -/
theorem target_mem_keyDests {e : QEntry} (he : e ∈ s.queue) {d : Dest} (hd : d ∈ e.targets) :
    d ∈ keyDests s := by
  have hqd : d ∈ queueDests s.remote := by
    have := h.q.qhas e he d hd
    cases hc : s.remote.get (.q d) with
    | none => rw [hc] at this; cases this
    | some c => exact mem_queueDests_of_q hc
  rw [mem_keyDests]
  exact ⟨hqd, fun k hk => by subst hk; exact dev_mem_of_queueDest h hv hqd⟩

end

end BertE.Select
