import BertE.Lemmas.SelectClosed
/- Composition of the system model with the queue-evaluation model, part 5: the declarative specification of C05
   restated on the system state — the queues in order of entry are sub-lists of `s.queue`, "green" is a statement
   about the build of the queue commit of the newest selected pull request of every destination. -/
namespace BertE.Select
open BertE.Git BertE.Flow

/-- the queued pull requests that are not on a hotfix branch, in order of entry -/
def mainQueue (s : Sys) : List QEntry := s.queue.filter fun e => e.targets.any fun d => !isHf d

/-- the hotfix branches that have a queue -/
def hotDests (s : Sys) : List Dest := (queueDests s.remote).filter isHf

/-- on every destination, the queue commit of the newest pull request of `sel` that targets it is SUCCESSFUL
    (`C03.HeadsGreen`, spelled out) -/
def Green (b : Builds) (s : Sys) (sel : List Nat) : Prop :=
  ∀ d e c, lastTargeting (s.queue.filter fun e => sel.contains e.pr) d = some e → qwOf s.remote e d = some c →
    b c = .successful

theorem toQ_beq {x : BertE.Build.Status} : (toQ x == Queue.Status.successful) = true ↔ x = .successful := by
  cases x <;> simp [toQ] <;> decide

section
variable {s : Sys} (h : Inv s) (hv : Validated s)
include h hv

/-- the main queue of the collection is the queue of the pull requests that are not on a hotfix branch -/
theorem mainOrder_queuesOfSys : Queue.mainOrder (queuesOfSys s) = (mainQueue s).map (·.pr) := by
  unfold Queue.mainOrder
  rw [mainList_queuesOfSys h hv]
  cases hg : gDev s with
  | none =>
    simp only [List.reverse_nil]
    have : mainQueue s = [] := by
      unfold mainQueue
      rw [List.filter_eq_nil_iff]
      intro e he hany
      rw [List.any_eq_true] at hany
      obtain ⟨d, hd, hf⟩ := hany
      obtain ⟨g, hg', _⟩ := targets_gDev h hv he hd (by simpa using hf)
      rw [hg] at hg'; cases hg'
    rw [this]; rfl
  | some g =>
    simp only
    rw [reverse_idsOn]
    congr 1
    unfold entriesOn mainQueue
    apply List.filter_congr
    intro e he
    cases hc : e.targets.contains (devDest g) with
    | true =>
      symm
      rw [List.any_eq_true]
      exact ⟨devDest g, List.contains_iff_mem.mp hc, rfl⟩
    | false =>
      symm
      cases hany : e.targets.any fun d => !isHf d with
      | false => rfl
      | true =>
        rw [List.any_eq_true] at hany
        obtain ⟨d, hd, hf⟩ := hany
        obtain ⟨g', hg', ht⟩ := targets_gDev h hv he hd (by simpa using hf)
        rw [hg] at hg'
        simp only [Option.some.injEq] at hg'
        subst hg'
        rw [List.contains_iff_mem.mpr ht] at hc; cases hc

/-- on a version that has a queue, "the newest selected entry is SUCCESSFUL" read on the system state -/
theorem greenOn_iff (b : Builds) (sel : List Nat) {d : Dest} (hd : d ∈ keyDests s) :
    Queue.Spec.greenOn (stOfSys b s) sel (versionOf d) (idsOn s d) = true ↔
      ∀ e c, lastTargeting (s.queue.filter fun e => sel.contains e.pr) d = some e → qwOf s.remote e d = some c →
        b c = .successful := by
  unfold Queue.Spec.greenOn Queue.Spec.newestIn
  rw [idsOn_eq]
  have hfind := lastTargeting_find sel d s.queue
  unfold entriesOn
  rw [← hfind]
  cases hl : lastTargeting (s.queue.filter fun e => sel.contains e.pr) d with
  | none => simp
  | some e =>
    obtain ⟨hmem, hdt⟩ := lastTargeting_mem hl
    have he : e ∈ s.queue := (List.mem_filter.mp hmem).1
    obtain ⟨c, _, hc, _, _⟩ := h.q.base.entry e he d hdt
    simp only [Option.map_some]
    rw [stOfSys_eq h hv b he hdt hc, toQ_beq]
    constructor
    · intro hb e' c' he' hc'
      simp only [Option.some.injEq] at he'
      subst he'
      rw [hc] at hc'
      simp only [Option.some.injEq] at hc'
      subst hc'
      exact hb
    · intro hall
      exact hall e c rfl hc

/-- a selection of pull requests of the main queue: "green on every development / stabilization version" is
    `Green` -/
theorem mainGreen_iff (b : Builds) (k : Nat) :
    Queue.Spec.mainGreen (queuesOfSys s) (stOfSys b s) k = true ↔
      Green b s (((mainQueue s).take k).map (·.pr)) := by
  unfold Queue.Spec.mainGreen Green
  rw [mainOrder_queuesOfSys h hv, ← List.map_take, List.all_eq_true]
  constructor
  · intro hall d e c hl hc
    obtain ⟨hmem, hdt⟩ := lastTargeting_mem hl
    have hef := List.mem_filter.mp hmem
    have he : e ∈ s.queue := hef.1
    have hdk := target_mem_keyDests h hv he hdt
    have hq : (versionOf d, idsOn s d) ∈ queuesOfSys s := List.mem_map.mpr ⟨d, hdk, rfl⟩
    have := hall _ hq
    rw [isHotfix_versionOf] at this
    cases hf : isHf d with
    | true =>
      -- a selected entry is an entry of the main queue: it has a target that is not a hotfix branch
      exfalso
      have hin := List.contains_iff_mem.mp hef.2
      rw [List.mem_map] at hin
      obtain ⟨e', he', hpr⟩ := hin
      have he'm : e' ∈ mainQueue s := List.mem_of_mem_take he'
      unfold mainQueue at he'm
      rw [List.mem_filter] at he'm
      have := eq_of_pr_eq h.q.ids he'm.1 he hpr
      subst this
      obtain ⟨d', hd', hf'⟩ := List.any_eq_true.mp he'm.2
      have := hotfix_alone h.q.base he hdt hf hd'
      subst this
      rw [hf] at hf'; cases hf'
    | false =>
      rw [hf, Bool.false_or] at this
      exact (greenOn_iff h hv b _ hdk).mp this e c hl hc
  · intro hg qe hqe
    unfold queuesOfSys at hqe
    rw [List.mem_map] at hqe
    obtain ⟨d, hdk, rfl⟩ := hqe
    rw [isHotfix_versionOf]
    cases hf : isHf d with
    | true => rfl
    | false =>
      rw [Bool.false_or]
      exact (greenOn_iff h hv b _ hdk).mpr (fun e c hl hc => hg d e c hl hc)

/-- a selection of pull requests of one hotfix queue: "green on that version" is `Green` -/
theorem hotfixGreen_iff (b : Builds) {d : Dest} (hdk : d ∈ keyDests s) (hf : isHf d = true) (k : Nat) :
    Queue.Spec.hotfixGreen (stOfSys b s) (versionOf d) (idsOn s d) k = true ↔
      Green b s (((entriesOn s d).take k).map (·.pr)) := by
  unfold Queue.Spec.hotfixGreen Green
  rw [reverse_idsOn, ← List.map_take]
  rw [greenOn_iff h hv b _ hdk]
  constructor
  · intro hall d' e c hl hc
    obtain ⟨hmem, hdt⟩ := lastTargeting_mem hl
    have hef := List.mem_filter.mp hmem
    have hin := List.contains_iff_mem.mp hef.2
    have htd : d ∈ e.targets :=
      targets_of_mem_ids h hef.1 (List.mem_map.mpr (by
        obtain ⟨e', he', hpr⟩ := List.mem_map.mp hin
        exact ⟨e', List.mem_of_mem_take he', hpr⟩))
    have : d' = d := hotfix_alone h.q.base hef.1 htd hf hdt
    subst this
    exact hall e c hl hc
  · intro hg e c hl hc
    exact hg d e c hl hc

/-- the hotfix queues of the collection -/
theorem filter_hotfix_queuesOfSys :
    (queuesOfSys s).filter (fun e => Queue.isHotfix e.1) = (hotDests s).map fun d => (versionOf d, idsOn s d) := by
  unfold queuesOfSys
  rw [List.filter_map]
  congr 1
  unfold keyDests hotDests
  simp only [List.filter_append, List.filter_filter, List.filter_map]
  have h1 : (queueDests s.remote).filter (fun a => (fun e => Queue.isHotfix e.1) ((fun d => (versionOf d, idsOn s d)) a)
      && isHf a) = (queueDests s.remote).filter isHf := by
    apply List.filter_congr
    intro d _
    simp only [isHotfix_versionOf, Bool.and_self]
  have h2 : (queueDests s.remote).filter (fun a => (fun e => Queue.isHotfix e.1) ((fun d => (versionOf d, idsOn s d)) a)
      && isSt a) = [] := by
    rw [List.filter_eq_nil_iff]
    intro d _
    simp only [isHotfix_versionOf]
    cases d <;> simp [isHf, isSt]
  have h3 : s.devs.filter (fun a => Queue.isHotfix (versionOf (devDest a)) &&
      (queueDests s.remote).contains (devDest a)) = [] := by
    rw [List.filter_eq_nil_iff]
    intro k _
    simp only [isHotfix_versionOf, isHf_devDest]
    simp
  simp only [Function.comp_def] at h1 h2 ⊢
  rw [h1, h2, h3]
  simp

/-- **The cut of the collection, on the system state**: the first entries of every hotfix queue, then the first
    entries of the main queue — sub-lists of `s.queue`, in order of entry. -/
theorem cut_queuesOfSys (nh : Queue.Version → List Nat → Nat) (n : Nat) :
    Queue.Spec.cut (queuesOfSys s) nh n =
      (hotDests s).flatMap (fun d => ((entriesOn s d).take (nh (versionOf d) (idsOn s d))).map (·.pr)) ++
        ((mainQueue s).take n).map (·.pr) := by
  unfold Queue.Spec.cut
  rw [mainOrder_queuesOfSys h hv, filter_hotfix_queuesOfSys h hv, List.flatMap_map, List.map_take]
  congr 1
  apply Queue.flatMap_congr'
  intro d _
  simp only
  rw [reverse_idsOn, List.map_take]

end

end BertE.Select
