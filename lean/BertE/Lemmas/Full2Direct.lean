import BertE.Lemmas.EvalGates
import BertE.Lemmas.CloseEvalBase
/-
Work package Full2, the direct merge: (1) with antisymmetric ancestry the direct merge lands EXACTLY on the source
tip (first target) and on the tips of the integration branches (later targets); (2) `chained` — the hypothesis of
`C03_direct_e2e_partial` — is a consequence of `prepare` and of what `is_needed = false` tested.
-/
namespace BertE.Full2
open BertE.Git BertE.Flow BertE.Close BertE.Eval

/-! ### (1) the direct merge, exactly -/

theorem full2_mergeRest_exact {pr : PrInfo} : ∀ (ds : List Dest) {l : Loc} {prevD pw : Commit}, l.OK →
    close_Antisym l.g → ds.Nodup →
    prevD < l.g.size → l.g.le prevD pw = true → ffReady l.g l.refs pr.src pw ds →
    ∃ l', mergeRest l pr prevD ds = some l' ∧ l'.g = l.g ∧
      (∀ x, (∀ d ∈ ds, x ≠ .dest d) → l'.refs.get x = l.refs.get x) ∧
      ∀ d ∈ ds, l'.refs.get (.dest d) = l.refs.get (.w d pr.src) ∧ (l.refs.get (.w d pr.src)).isSome = true
  | [], l, _, _, _, _, _, _, _, _ => ⟨l, rfl, rfl, fun _ _ => rfl, fun _ hd => nomatch hd⟩
  | d :: ds, l, prevD, pw, hl, ha, hnd, hp, hpw, hready => by
    obtain ⟨t, wc, ht, hwc, htw, hpww, hrest⟩ := hready
    rw [List.nodup_cons] at hnd
    have hwclt : wc < l.g.size := hl.valid _ _ hwc
    obtain ⟨l1, n, hm, hl1, hg1, hsame1, hn, _, hwn, hnw⟩ :=
      Loc.mergeD_ff hl pr.noOct ht hwclt htw (le_trans hl.wf hpw hpww)
    have hnwc : wc = n := ha wc n hwn hnw
    subst hnwc
    have hnlt : wc < l1.g.size := hl1.valid _ _ hn
    have hdne : ∀ d' : Dest, d' ≠ d → Ref.dest d' ≠ .dest d := by
      intro d' hne he; simp only [Ref.dest.injEq] at he; exact hne he
    have hwne : ∀ d' : Dest, Ref.w d' pr.src ≠ .dest d := by intro d' he; cases he
    have hready1 : ffReady l1.g l1.refs pr.src wc ds := by
      rw [hg1]
      refine ffReady_of_same ds wc ?_ hrest
      intro d' hd'
      have hne : d' ≠ d := fun he => hnd.1 (he ▸ hd')
      exact ⟨hsame1 _ (hdne d' hne), hsame1 _ (hwne d')⟩
    obtain ⟨l', hm', hg', hsame', hres'⟩ := full2_mergeRest_exact ds (l := l1) (prevD := wc) (pw := wc) hl1
      (by rw [hg1]; exact ha) hnd.2 hnlt (by rw [hg1]; exact le_refl hl.wf hwclt) hready1
    refine ⟨l', ?_, hg'.trans hg1, ?_, ?_⟩
    · simp only [mergeRest, hwc, hm, hn]
      exact hm'
    · intro x hx
      rw [hsame' x (fun d' hd' => hx d' (List.mem_cons_of_mem _ hd'))]
      exact hsame1 x (hx d List.mem_cons_self)
    · intro d' hd'
      rcases List.mem_cons.mp hd' with rfl | hd''
      · refine ⟨?_, by rw [hwc]; rfl⟩
        rw [hsame' _ (fun d'' hd'' he => by
          simp only [Ref.dest.injEq] at he; subst he; exact hnd.1 hd''), hn, hwc]
      · obtain ⟨h1, h2⟩ := hres' d' hd''
        rw [hsame1 _ (hwne d')] at h1 h2
        exact ⟨h1, h2⟩

theorem full2_qOnly_not_dest (m : RefMap) (d : Dest) : Ref.dest d ∉ qOnly m := by
  rw [mem_qOnly]; unfold qRaw
  simp only [List.mem_map, List.mem_filter, not_exists, not_and]
  intro x hx hxe
  rw [hxe] at hx; simp at hx

theorem full2_qOnly_not_w (m : RefMap) (d : Dest) (src : String) : Ref.w d src ∉ qOnly m := by
  rw [mem_qOnly]; unfold qRaw
  simp only [List.mem_map, List.mem_filter, not_exists, not_and]
  intro x hx hxe
  rw [hxe] at hx; simp at hx

/-- **The direct merge, exactly** (antisymmetric ancestry): if the source contains its destination's tip and every
    integration branch contains its target's tip and its predecessor's tip, the plan is the pushes of the preparation,
    the deletion of the `q/` branches, and ONE atomic pruning push of a clone in which the first target is on the
    source tip, every later target on the tip of its integration branch, every other destination where it was. -/
theorem full2_directMerge_exact {s : Sys} {l4 : Loc} (hl : l4.OK) (ha : close_Antisym l4.g) (pr : PrInfo) {sc dc : Commit}
    (d1 : Dest) (ds : List Dest) (hnd : (d1 :: ds).Nodup) (pre : List Op)
    (hdc : l4.refs.get (.dest d1) = some dc) (hsc : sc < l4.g.size) (hle : l4.g.le dc sc = true)
    (hready : ffReady l4.g l4.refs pr.src sc ds) :
    (directMerge s l4 pr sc (d1 :: ds) pre).g = l4.g ∧
    (directMerge s l4 pr sc (d1 :: ds) pre).outcome = "SuccessMessage" ∧
    ∃ loc, (directMerge s l4 pr sc (d1 :: ds) pre).ops =
        pre ++ (if s.useQueue then qOnly l4.refs else []).map Op.delete ++ [.pushAll loc true] ∧
      loc.get (.dest d1) = some sc ∧
      (∀ d ∈ ds, loc.get (.dest d) = l4.refs.get (.w d pr.src) ∧ (l4.refs.get (.w d pr.src)).isSome = true) ∧
      (∀ d, d ∉ d1 :: ds → loc.get (.dest d) = l4.refs.get (.dest d)) := by
  have hqd : ∀ d, (delRefs l4.refs (if s.useQueue then qOnly l4.refs else [])).get (.dest d) =
      l4.refs.get (.dest d) := by
    intro d
    rw [get_delRefs, if_neg]
    split
    · exact full2_qOnly_not_dest _ _
    · simp
  have hqw : ∀ d, (delRefs l4.refs (if s.useQueue then qOnly l4.refs else [])).get (.w d pr.src) =
      l4.refs.get (.w d pr.src) := by
    intro d
    rw [get_delRefs, if_neg]
    split
    · exact full2_qOnly_not_w _ _ _
    · simp
  unfold directMerge
  generalize (if s.useQueue then qOnly l4.refs else []) = qs at hqd hqw ⊢
  simp only
  have hl5 : Loc.OK { l4 with refs := delRefs l4.refs qs } := hl.delRefs qs
  have hdc5 : (delRefs l4.refs qs).get (.dest d1) = some dc := by rw [hqd]; exact hdc
  have hall : ∀ x ∈ dc :: [sc], l4.g.le x sc = true := by
    intro x hx
    simp only [List.mem_cons, List.not_mem_nil, or_false] at hx
    rcases hx with rfl | rfl
    · exact hle
    · exact le_refl hl.wf hsc
  obtain ⟨n1, hm1, _, hsn, hns⟩ := Loc.merge_ff (l := { l4 with refs := delRefs l4.refs qs }) hl5 hdc5
    (show sc ∈ dc :: [sc] by simp) hall
  have hn1 : sc = n1 := ha sc n1 hsn hns
  subst hn1
  rw [hm1]
  simp only [RefMap.get_set_eq]
  rw [List.nodup_cons] at hnd
  have hl6 : Loc.OK { l4 with refs := (delRefs l4.refs qs).set (.dest d1) sc } := ⟨hl.wf, hl5.valid.set hsc⟩
  have hgen : ∀ (ds' : List Dest) (p : Commit), d1 ∉ ds' → ffReady l4.g l4.refs pr.src p ds' →
      ffReady l4.g ((delRefs l4.refs qs).set (.dest d1) sc) pr.src p ds' := by
    intro ds'
    induction ds' with
    | nil => intro _ _ _; trivial
    | cons d' ds' ih =>
      intro p hni hr
      obtain ⟨t', w', ht', hw', h1, h2, h3⟩ := hr
      have hne : d' ≠ d1 := fun he => hni (by rw [he]; exact List.mem_cons_self)
      refine ⟨t', w', ?_, ?_, h1, h2, ih w' (fun hm' => hni (List.mem_cons_of_mem _ hm')) h3⟩
      · rw [RefMap.get_set_ne _ _ (by intro he; simp only [Ref.dest.injEq] at he; exact hne he), hqd]; exact ht'
      · rw [RefMap.get_set_ne _ _ (by intro he; cases he), hqw]; exact hw'
  have hready6 := hgen ds sc hnd.1 hready
  obtain ⟨l7, hm7, hg7, hsame7, hres7⟩ := full2_mergeRest_exact (pr := pr) ds
    (l := { l4 with refs := (delRefs l4.refs qs).set (.dest d1) sc }) (prevD := sc) (pw := sc)
    hl6 ha hnd.2 hsc (le_refl hl.wf hsc) hready6
  rw [hm7]
  simp only
  refine ⟨hg7, trivial, delRefs l7.refs (ds.map (fun d => Ref.w d pr.src)), rfl, ?_, ?_, ?_⟩
  all_goals
    have hlocd : ∀ d, (delRefs l7.refs (ds.map (fun d => Ref.w d pr.src))).get (.dest d) = l7.refs.get (.dest d) := by
      intro d
      rw [get_delRefs, if_neg]
      simp only [List.mem_map, not_exists, not_and]
      intro _ _ he; cases he
  · rw [hlocd, hsame7 _ (fun d' hd' he => by
      simp only [Ref.dest.injEq] at he; subst he; exact hnd.1 hd')]
    exact RefMap.get_set_eq _ _ _
  · intro d hd
    obtain ⟨h1, h2⟩ := hres7 d hd
    have e : ((delRefs l4.refs qs).set (.dest d1) sc).get (.w d pr.src) = l4.refs.get (.w d pr.src) := by
      rw [RefMap.get_set_ne _ _ (by intro he; cases he), hqw]
    rw [hlocd, h1]
    exact ⟨e, by rw [← e]; exact h2⟩
  · intro d hd
    have hne1 : d ≠ d1 := fun he => hd (by rw [he]; exact List.mem_cons_self)
    rw [hlocd, hsame7 _ (fun d' hd' he => by
      simp only [Ref.dest.injEq] at he; subst he; exact hd (List.mem_cons_of_mem _ hd'))]
    show ((delRefs l4.refs qs).set (.dest d1) sc).get (.dest d) = _
    rw [RefMap.get_set_ne _ _ (by intro he; simp only [Ref.dest.injEq] at he; exact hne1 he), hqd]

/-! ### (2) `chained` from `prepare` -/

/-! #### `updateW`: other refs, and the chain it builds -/

theorem full2_updateW_other (pr : PrInfo) : ∀ (ds : List Dest) (l : Loc) (prev : Commit) (done : List Ref) (x : Ref),
    (∀ d ∈ ds, x ≠ .w d pr.src) → (updateW l pr prev ds done).1.refs.get x = l.refs.get x
  | [], _, _, _, _, _ => rfl
  | d :: ds, l, prev, done, x, hx => by
    simp only [updateW]
    cases ht : l.refs.get (.dest d) with
    | none => rfl
    | some t =>
      simp only
      cases hm : l.mergeN pr.noOct (.w d pr.src) t prev with
      | none => rfl
      | some l' =>
        simp only
        have h1 := Loc.mergeN_other hm x (hx d List.mem_cons_self)
        cases hn : l'.refs.get (.w d pr.src) with
        | none => exact h1
        | some c =>
          simp only
          rw [full2_updateW_other pr ds l' c _ x (fun d' hd' => hx d' (List.mem_cons_of_mem _ hd'))]
          exact h1

/-- **post-condition of a successful `update_integration_branches`**: every integration branch exists and contains
    the tip of its predecessor (the first one: `prev`) -/
theorem full2_updateW_chained (pr : PrInfo) : ∀ (ds : List Dest) {l : Loc} {prev : Commit} {done : List Ref},
    l.OK → prev < l.g.size → ds.Nodup → (updateW l pr prev ds done).2.2 = true →
    chained (updateW l pr prev ds done).1.g (updateW l pr prev ds done).1.refs pr.src prev ds
  | [], _, _, _, _, _, _, _ => trivial
  | d :: ds, l, prev, done, hl, hp, hnd, hok => by
    revert hok
    simp only [updateW]
    cases ht : l.refs.get (.dest d) with
    | none => intro hok; cases hok
    | some t =>
      simp only
      cases hm : l.mergeN pr.noOct (.w d pr.src) t prev with
      | none => intro hok; cases hok
      | some l' =>
        simp only
        have hs : ∀ x ∈ [t, prev], x < l.g.size := by
          intro x hx
          simp only [List.mem_cons, List.not_mem_nil, or_false] at hx
          rcases hx with rfl | rfl
          · exact hl.valid _ _ ht
          · exact hp
        obtain ⟨hl', _, _, _, n, _, hn, _, hsn⟩ := Loc.mergeN_spec hl hs hm
        rw [hn]
        simp only
        intro hok
        rw [List.nodup_cons] at hnd
        have hnlt : n < l'.g.size := hl'.valid _ _ hn
        refine ⟨n, ?_, ?_, full2_updateW_chained pr ds hl' hnlt hnd.2 hok⟩
        · rw [full2_updateW_other pr ds l' n _ _ (fun d' hd' he => by
            simp only [Ref.w.injEq] at he; exact hnd.1 (he.1 ▸ hd'))]
          exact hn
        · exact (updateW_wonly pr ds hl' hnlt).ext.le hnlt (hsn prev (by simp))

/-! #### merges that have nothing to do -/

/-- when the tip contains every source the merge leaves the branch where it is ("Already up to date") -/
theorem full2_merge_noop {l : Loc} {r : Ref} {a : Commit} {srcs : List Commit} (hr : l.refs.get r = some a)
    (haa : l.g.le a a = true) (hall : ∀ x ∈ srcs, l.g.le x a = true) :
    l.merge r srcs = some { l with refs := l.refs.set r a } := by
  have h : topHead l.g (a :: srcs) = some a := by
    unfold topHead
    rw [List.find?_cons_of_pos]
    simp only [List.all_cons, haa, Bool.true_and, List.all_eq_true]
    exact hall
  unfold Loc.merge
  rw [hr]
  simp only
  rw [h]

theorem full2_get_set_same {m : RefMap} {r : Ref} {a : Commit} (hr : m.get r = some a) (x : Ref) :
    (m.set r a).get x = m.get x := by
  rw [RefMap.get_set]
  by_cases hx : x = r
  · subst hx; simp [hr]
  · simp [hx]

theorem full2_mergeN_noop {l : Loc} (n : Bool) {r : Ref} {a t p : Commit} (hr : l.refs.get r = some a)
    (haa : l.g.le a a = true) (hta : l.g.le t a = true) (hpa : l.g.le p a = true) :
    ∃ l', l.mergeN n r t p = some l' ∧ l'.g = l.g ∧ ∀ x, l'.refs.get x = l.refs.get x := by
  cases n with
  | false =>
    have hall : ∀ x ∈ [t, p], l.g.le x a = true := by
      intro x hx
      simp only [List.mem_cons, List.not_mem_nil, or_false] at hx
      rcases hx with rfl | rfl
      · exact hta
      · exact hpa
    refine ⟨{ l with refs := l.refs.set r a }, ?_, rfl, full2_get_set_same hr⟩
    simp only [Loc.mergeN, Bool.false_eq_true, if_false]
    exact full2_merge_noop hr haa hall
  | true =>
    have hh : l.refs.has r = true := (RefMap.has_iff _ _).mpr ⟨a, hr⟩
    have hall1 : ∀ x ∈ [t], l.g.le x a = true := by
      intro x hx
      simp only [List.mem_cons, List.not_mem_nil, or_false] at hx
      subst hx; exact hta
    have hall2 : ∀ x ∈ [p], l.g.le x a = true := by
      intro x hx
      simp only [List.mem_cons, List.not_mem_nil, or_false] at hx
      subst hx; exact hpa
    have hm1 := full2_merge_noop hr haa hall1
    have hm2 := full2_merge_noop (l := { l with refs := l.refs.set r a }) (r := r) (a := a)
      (RefMap.get_set_eq _ _ _) haa hall2
    have e1 : l.merge1 r t = ({ l with refs := l.refs.set r a }, true) := by
      unfold Loc.merge1; rw [hm1]
    have e2 : Loc.merge1 { l with refs := l.refs.set r a } r p =
        ({ l with refs := (l.refs.set r a).set r a }, true) := by
      unfold Loc.merge1; rw [hm2]
    have e3 : l.seq2 r t p = ({ l with refs := (l.refs.set r a).set r a }, true) := by
      unfold Loc.seq2
      simp only [e1, if_true]
      exact e2
    refine ⟨{ l with refs := (l.refs.set r a).set r a }, by simp [Loc.mergeN, Loc.merge2, hh, e3], rfl, ?_⟩
    intro x
    show ((l.refs.set r a).set r a).get x = _
    rw [full2_get_set_same (RefMap.get_set_eq _ _ _), full2_get_set_same hr]

theorem full2_inSync_congr {g : Graph} {refs refs' : RefMap} (h : ∀ x, refs'.get x = refs.get x) :
    ∀ (rs : List Ref) (p : Commit), inSync g refs' p rs = inSync g refs p rs
  | [], _ => rfl
  | r :: rs, p => by
    simp only [inSync]
    rw [h r]
    cases refs.get r with
    | none => rfl
    | some c => simp only; rw [full2_inSync_congr h rs c]

theorem full2_ok_of_same {l l' : Loc} (hl : l.OK) (hg : l'.g = l.g) (hr : ∀ x, l'.refs.get x = l.refs.get x) :
    l'.OK :=
  ⟨by rw [hg]; exact hl.wf, fun r c h => by rw [hg]; exact hl.valid r c (by rw [← hr]; exact h)⟩

/-- **`update_integration_branches` has nothing to do** when the integration branches are in sync and each contains
    the tip of its target: no commit is created and every ref keeps its value -/
theorem full2_updateW_noop (pr : PrInfo) : ∀ (ds : List Dest) {l : Loc} {prev : Commit} {done : List Ref}, l.OK →
    (∀ d ∈ ds, ∃ t a, l.refs.get (.dest d) = some t ∧ l.refs.get (.w d pr.src) = some a ∧ l.g.le t a = true) →
    inSync l.g l.refs prev (ds.map (fun d => Ref.w d pr.src)) = true →
    (updateW l pr prev ds done).1.g = l.g ∧ ∀ x, (updateW l pr prev ds done).1.refs.get x = l.refs.get x
  | [], _, _, _, _, _, _ => ⟨rfl, fun _ => rfl⟩
  | d :: ds, l, prev, done, hl, h1, h2 => by
    obtain ⟨t, a, ht, ha, hta⟩ := h1 d List.mem_cons_self
    simp only [List.map_cons, inSync, ha, Bool.and_eq_true] at h2
    have haa : l.g.le a a = true := le_refl hl.wf (hl.valid _ _ ha)
    obtain ⟨l', hm, hg', hr'⟩ := full2_mergeN_noop pr.noOct ha haa hta h2.1
    have ha' : l'.refs.get (.w d pr.src) = some a := by rw [hr']; exact ha
    have hl' : l'.OK := full2_ok_of_same hl hg' hr'
    have h1' : ∀ d' ∈ ds, ∃ t a, l'.refs.get (.dest d') = some t ∧ l'.refs.get (.w d' pr.src) = some a ∧
        l'.g.le t a = true := by
      intro d' hd'
      obtain ⟨t', a', x1, x2, x3⟩ := h1 d' (List.mem_cons_of_mem _ hd')
      exact ⟨t', a', by rw [hr']; exact x1, by rw [hr']; exact x2, by rw [hg']; exact x3⟩
    have h2' : inSync l'.g l'.refs a (ds.map (fun d => Ref.w d pr.src)) = true := by
      rw [hg', full2_inSync_congr hr']; exact h2.2
    obtain ⟨r1, r2⟩ := full2_updateW_noop pr ds (prev := a) (done := done ++ [.w d pr.src]) hl' h1' h2'
    simp only [updateW, ht, hm, ha']
    exact ⟨r1.trans hg', fun x => (r2 x).trans (hr' x)⟩

/-! #### `createW`, `conflictCheck`, `settle` on refs -/

theorem full2_d_createW_g (pr : PrInfo) : ∀ (ds : List Dest) (l : Loc), (createW l pr ds).g = l.g
  | [], _ => rfl
  | d :: ds, l => by
    simp only [createW]
    rw [full2_d_createW_g pr ds]
    cases l.refs.get (.w d pr.src) with
    | some _ => rfl
    | none => cases l.refs.get (.dest d) <;> rfl

theorem full2_createW_other (pr : PrInfo) : ∀ (ds : List Dest) (l : Loc) (x : Ref), (∀ d ∈ ds, x ≠ .w d pr.src) →
    (createW l pr ds).refs.get x = l.refs.get x
  | [], _, _, _ => rfl
  | d :: ds, l, x, hx => by
    simp only [createW]
    rw [full2_createW_other pr ds _ x (fun d' hd' => hx d' (List.mem_cons_of_mem _ hd'))]
    cases l.refs.get (.w d pr.src) with
    | some _ => rfl
    | none =>
      cases l.refs.get (.dest d) with
      | none => rfl
      | some t => exact RefMap.get_set_ne _ _ (hx d List.mem_cons_self)

/-- an integration branch that exists is left alone; a missing one is created on the tip of its target -/
theorem full2_createW_w (pr : PrInfo) : ∀ (ds : List Dest) (l : Loc), ds.Nodup → ∀ d ∈ ds,
    (∀ c, l.refs.get (.w d pr.src) = some c → (createW l pr ds).refs.get (.w d pr.src) = some c) ∧
    (l.refs.get (.w d pr.src) = none → (createW l pr ds).refs.get (.w d pr.src) = l.refs.get (.dest d))
  | [], _, _, _, hd => nomatch hd
  | d0 :: ds, l, hnd, d, hd => by
    rw [List.nodup_cons] at hnd
    simp only [createW]
    rcases List.mem_cons.mp hd with rfl | hd'
    · rw [full2_createW_other pr ds _ _ (fun d' hd' he => by
        simp only [Ref.w.injEq] at he; exact hnd.1 (he.1 ▸ hd'))]
      cases hw : l.refs.get (.w d pr.src) with
      | some c0 =>
        refine ⟨fun c hc => ?_, fun h => (nomatch h)⟩
        simp only
        rw [hw]; exact hc
      | none =>
        cases ht : l.refs.get (.dest d) with
        | none => exact ⟨fun c hc => (nomatch hc), fun _ => hw⟩
        | some t => exact ⟨fun c hc => (nomatch hc), fun _ => RefMap.get_set_eq _ _ _⟩
    · have hne : d ≠ d0 := fun he => hnd.1 (he ▸ hd')
      have hwne : Ref.w d pr.src ≠ .w d0 pr.src := by
        intro he; simp only [Ref.w.injEq] at he; exact hne he.1
      have hdne : Ref.dest d ≠ .w d0 pr.src := by intro he; cases he
      obtain ⟨i1, i2⟩ := full2_createW_w pr ds
        (match l.refs.get (.w d0 pr.src), l.refs.get (.dest d0) with
          | none, some t => { l with refs := l.refs.set (.w d0 pr.src) t }
          | _, _ => l) hnd.2 d hd'
      have e : ∀ x, x ≠ Ref.w d0 pr.src →
          (match l.refs.get (.w d0 pr.src), l.refs.get (.dest d0) with
          | none, some t => { l with refs := l.refs.set (.w d0 pr.src) t }
          | _, _ => l).refs.get x = l.refs.get x := by
        intro x hx
        cases l.refs.get (.w d0 pr.src) with
        | some _ => rfl
        | none =>
          cases l.refs.get (.dest d0) with
          | none => rfl
          | some t => exact RefMap.get_set_ne _ _ hx
      rw [e _ hwne, e _ hdne] at i2
      rw [e _ hwne] at i1
      exact ⟨i1, i2⟩

theorem full2_conflictCheck_same (l : Loc) (dc sc : Commit) :
    (conflictCheck l dc sc).2.g = l.g ∧ (conflictCheck l dc sc).2.refs = l.refs := by
  unfold conflictCheck
  split
  · exact ⟨rfl, rfl⟩
  · exact l.ask_g

/-- the reset of `settle`: an integration branch that is on the remote ends on its remote value -/
theorem full2_resetW_some (remote : RefMap) (src : String) {d : Dest} {c : Commit}
    (hc : remote.get (.w d src) = some c) : ∀ (rest : List Dest) (m : RefMap),
    (d ∈ rest ∨ m.get (.w d src) = some c) →
    (rest.foldl (fun m d => match remote.get (.w d src) with
        | some c => m.set (.w d src) c
        | none => m) m).get (.w d src) = some c
  | [], _, h => by
    rcases h with h | h
    · cases h
    · exact h
  | d' :: rest, m, h => by
    simp only [List.foldl_cons]
    apply full2_resetW_some remote src hc rest
    by_cases hd : d = d'
    · subst hd
      right
      rw [hc]
      exact RefMap.get_set_eq _ _ _
    · rcases h with h | h
      · rcases List.mem_cons.mp h with h | h
        · exact absurd h hd
        · exact Or.inl h
      · right
        cases remote.get (.w d' src) with
        | none => exact h
        | some c' =>
          simp only
          rw [RefMap.get_set_ne _ _ (by intro he; simp only [Ref.w.injEq] at he; exact hd he.1)]
          exact h

/-- the reset of `settle`: a ref that is not on the remote keeps its local value -/
theorem full2_resetW_none (remote : RefMap) (src : String) {x : Ref} (hx : remote.get x = none) :
    ∀ (rest : List Dest) (m : RefMap),
    (rest.foldl (fun m d => match remote.get (.w d src) with
        | some c => m.set (.w d src) c
        | none => m) m).get x = m.get x
  | [], _ => rfl
  | d :: rest, m => by
    simp only [List.foldl_cons]
    rw [full2_resetW_none remote src hx rest]
    cases hc : remote.get (.w d src) with
    | none => rfl
    | some c =>
      simp only
      apply RefMap.get_set_ne
      intro he
      rw [he, hc] at hx
      cases hx

theorem full2_d_settle_g (s : Sys) (pr : PrInfo) (rest : List Dest) (sync : Bool) (l3 : Loc) :
    (settle s pr rest sync l3).g = l3.g := by
  unfold settle
  split <;> rfl

theorem full2_settle_not (s : Sys) (pr : PrInfo) (rest : List Dest) {sync : Bool} (l3 : Loc)
    (h : (s.useQueue && sync) = false) : settle s pr rest sync l3 = l3 := by
  unfold settle
  rw [h]
  simp

theorem full2_settle_some {s : Sys} (pr : PrInfo) {rest : List Dest} {sync : Bool} (l3 : Loc)
    (h : (s.useQueue && sync) = true) {d : Dest} (hd : d ∈ rest) {c : Commit}
    (hc : s.remote.get (.w d pr.src) = some c) :
    (settle s pr rest sync l3).refs.get (.w d pr.src) = some c := by
  unfold settle
  rw [h]
  simp only [if_true]
  exact full2_resetW_some s.remote pr.src hc rest l3.refs (Or.inl hd)

theorem full2_settle_none (s : Sys) (pr : PrInfo) (rest : List Dest) (sync : Bool) (l3 : Loc) {x : Ref}
    (hx : s.remote.get x = none) : (settle s pr rest sync l3).refs.get x = l3.refs.get x := by
  unfold settle
  split
  · exact full2_resetW_none s.remote pr.src hx rest l3.refs
  · rfl

theorem full2_settle_other (s : Sys) (pr : PrInfo) (rest : List Dest) (sync : Bool) (l3 : Loc) {x : Ref}
    (hx : ∀ d s', x ≠ .w d s') : (settle s pr rest sync l3).refs.get x = l3.refs.get x := by
  unfold settle
  split
  · exact resetW_get s.remote pr.src rest l3.refs x hx
  · rfl

theorem full2_chained_of_inSync {g : Graph} {refs refs' : RefMap} {src : String} : ∀ (ds : List Dest) (prev : Commit),
    (∀ d ∈ ds, refs'.get (.w d src) = refs.get (.w d src)) →
    inSync g refs prev (ds.map (fun d => Ref.w d src)) = true → chained g refs' src prev ds
  | [], _, _, _ => trivial
  | d :: ds, prev, h, hs => by
    simp only [List.map_cons, inSync] at hs
    cases hw : refs.get (.w d src) with
    | none => rw [hw] at hs; cases hs
    | some c =>
      rw [hw] at hs
      simp only [Bool.and_eq_true] at hs
      exact ⟨c, by rw [h d List.mem_cons_self]; exact hw, hs.1,
        full2_chained_of_inSync ds c (fun d' hd' => h d' (List.mem_cons_of_mem _ hd')) hs.2⟩

/-! #### the clone handed over by `prepare` -/

/-- `chained` for the clone that `prepare` hands over, from the definitions of its steps (`rest` = the targets after
    the first, `sync` = the outcome of `check_in_sync`): without the reset of `settle` it is the post-condition of
    `update_integration_branches`; with it, the update had nothing to do and the chain is the one `check_in_sync`
    has seen. -/
theorem full2_chained_core {s : Sys} (hs : s.WF) (pr : PrInfo) {sc dc : Commit} {orc : List Bool} (rest : List Dest)
    (hnd : rest.Nodup) (sync : Bool) (hsclt : sc < s.g.size)
    (hsync : sync = true →
      inSync (createW ⟨s.g, s.remote, orc⟩ pr rest).g (createW ⟨s.g, s.remote, orc⟩ pr rest).refs sc
        (rest.map (fun d => Ref.w d pr.src)) = true)
    (hupd : (updateW (conflictCheck (createW ⟨s.g, s.remote, orc⟩ pr rest) dc sc).2 pr sc rest []).2.2 = true)
    (hall : ∀ d ∈ rest, ∃ wc t,
      (settle s pr rest sync
        (updateW (conflictCheck (createW ⟨s.g, s.remote, orc⟩ pr rest) dc sc).2 pr sc rest []).1).refs.get
          (.w d pr.src) = some wc ∧
      (settle s pr rest sync
        (updateW (conflictCheck (createW ⟨s.g, s.remote, orc⟩ pr rest) dc sc).2 pr sc rest []).1).refs.get
          (.dest d) = some t ∧
      (settle s pr rest sync
        (updateW (conflictCheck (createW ⟨s.g, s.remote, orc⟩ pr rest) dc sc).2 pr sc rest []).1).g.le t wc = true) :
    chained
      (settle s pr rest sync
        (updateW (conflictCheck (createW ⟨s.g, s.remote, orc⟩ pr rest) dc sc).2 pr sc rest []).1).g
      (settle s pr rest sync
        (updateW (conflictCheck (createW ⟨s.g, s.remote, orc⟩ pr rest) dc sc).2 pr sc rest []).1).refs
      pr.src sc rest := by
  have hl0 : Loc.OK ⟨s.g, s.remote, orc⟩ := ⟨hs.g, hs.valid⟩
  have hw1 := createW_wonly pr rest hl0
  have hg1 := full2_d_createW_g pr rest ⟨s.g, s.remote, orc⟩
  have ho1 := full2_createW_other pr rest ⟨s.g, s.remote, orc⟩
  have hc1 := full2_createW_w pr rest ⟨s.g, s.remote, orc⟩ hnd
  generalize createW ⟨s.g, s.remote, orc⟩ pr rest = l1 at *
  obtain ⟨hg2, hr2⟩ := full2_conflictCheck_same l1 dc sc
  have hl2 : (conflictCheck l1 dc sc).2.OK := (conflictCheck_wonly hw1.ok dc sc).ok
  generalize (conflictCheck l1 dc sc).2 = l2 at *
  have hsc2 : sc < l2.g.size := by rw [hg2, hg1]; exact hsclt
  have hw3 := updateW_wonly pr rest (done := []) hl2 hsc2
  have ho3 := full2_updateW_other pr rest l2 sc []
  by_cases hcond : (s.useQueue && sync) = true
  · -- the reset applies: `updateW` was a no-op
    have hsy : sync = true := by
      simp only [Bool.and_eq_true] at hcond; exact hcond.2
    have h1 : ∀ d ∈ rest, ∃ t a, l2.refs.get (.dest d) = some t ∧ l2.refs.get (.w d pr.src) = some a ∧
        l2.g.le t a = true := by
      intro d hd
      obtain ⟨wc, t, x1, x2, x3⟩ := hall d hd
      rw [full2_settle_other s pr rest sync _ (fun _ _ he => by cases he),
        ho3 _ (fun _ _ he => by cases he)] at x2
      have x2' : s.remote.get (.dest d) = some t := by
        have := ho1 (.dest d) (fun _ _ he => by cases he)
        rw [hr2] at x2; rw [this] at x2; exact x2
      rw [full2_d_settle_g] at x3
      cases hR : s.remote.get (.w d pr.src) with
      | some R =>
        rw [full2_settle_some pr _ hcond hd hR] at x1
        cases x1
        have hRlt : wc < l2.g.size := by rw [hg2, hg1]; exact hs.valid _ _ hR
        refine ⟨t, wc, x2, ?_, ?_⟩
        · rw [hr2]; exact (hc1 d hd).1 wc hR
        · rw [← hw3.ext.2 t wc hRlt]; exact x3
      | none =>
        refine ⟨t, t, x2, ?_, ?_⟩
        · rw [hr2, (hc1 d hd).2 hR]; exact x2'
        · exact le_refl hl2.wf (hl2.valid _ _ x2)
    have h2 : inSync l2.g l2.refs sc (rest.map (fun d => Ref.w d pr.src)) = true := by
      rw [hg2, hr2]; exact hsync hsy
    obtain ⟨r1, r2⟩ := full2_updateW_noop pr rest (prev := sc) (done := []) hl2 h1 h2
    rw [full2_d_settle_g, r1]
    refine full2_chained_of_inSync rest sc ?_ h2
    intro d hd
    cases hR : s.remote.get (.w d pr.src) with
    | some R =>
      rw [full2_settle_some pr _ hcond hd hR, hr2]
      exact ((hc1 d hd).1 R hR).symm
    | none =>
      rw [full2_settle_none s pr rest sync _ hR, r2]
  · -- no reset: the post-condition of `updateW`
    have hcond' : (s.useQueue && sync) = false := by simpa using hcond
    rw [full2_settle_not s pr rest _ hcond']
    exact full2_updateW_chained pr rest hl2 hsc2 hnd hupd

theorem full2_prepare_inr {s : Sys} {pr : PrInfo} {sc dc : Commit} {orc : List Bool} {l4 : Loc} {pushW : List Op}
    (hp : prepare s pr sc dc orc = .inr (l4, pushW)) :
    (updateW (conflictCheck (createW ⟨s.g, s.remote, orc⟩ pr ((s.targets pr.dst).drop 1)) dc sc).2 pr sc
      ((s.targets pr.dst).drop 1) []).2.2 = true ∧
    l4 = settle s pr ((s.targets pr.dst).drop 1)
      (inSync (createW ⟨s.g, s.remote, orc⟩ pr ((s.targets pr.dst).drop 1)).g
        (createW ⟨s.g, s.remote, orc⟩ pr ((s.targets pr.dst).drop 1)).refs sc
        ((s.targets pr.dst).map (wRef pr pr.dst)))
      (updateW (conflictCheck (createW ⟨s.g, s.remote, orc⟩ pr ((s.targets pr.dst).drop 1)) dc sc).2 pr sc
        ((s.targets pr.dst).drop 1) []).1 := by
  unfold prepare at hp
  simp only at hp
  split at hp
  · cases hp
  · split at hp
    · cases hp
    · next h1 h2 =>
      simp only [Sum.inr.injEq, Prod.mk.injEq] at hp
      exact ⟨by simpa using h2, hp.1.symm⟩

/-- **`chained` is a consequence of `prepare`** and of what `is_needed = false` tested (`hall`): the hypothesis
    `hchain` of `C03_direct_e2e_partial` can be discharged. -/
theorem full2_prepare_chained {s : Sys} (hs : s.WF) (pr : PrInfo) {sc dc : Commit} {orc : List Bool} {l4 : Loc}
    {pushW : List Op}
    (hsc : s.remote.get (.other pr.src) = some sc)
    (hprep : prepare s pr sc dc orc = .inr (l4, pushW))
    (hall : ∀ d ∈ (s.targets pr.dst).drop 1, ∃ wc t, l4.refs.get (.w d pr.src) = some wc ∧
        l4.refs.get (.dest d) = some t ∧ l4.g.le t wc = true) :
    chained l4.g l4.refs pr.src sc ((s.targets pr.dst).drop 1) := by
  obtain ⟨hupd, hl4⟩ := full2_prepare_inr hprep
  have hnd : (s.targets pr.dst).Nodup := pairwise_before_nodup (targets_pairwise hs.sorted pr.dst)
  obtain ⟨rest, hts⟩ := evalG_targets_cons s pr.dst
  rw [hts] at hnd hl4 hupd hall ⊢
  simp only [List.drop_succ_cons, List.drop_zero] at hl4 hupd hall ⊢
  rw [List.nodup_cons] at hnd
  have hmap : (pr.dst :: rest).map (wRef pr pr.dst) = .other pr.src :: rest.map (fun d => Ref.w d pr.src) := by
    rw [List.map_cons]
    congr 1
    · simp [wRef]
    · apply List.map_congr_left
      intro d hd
      have hne : d ≠ pr.dst := fun he => hnd.1 (he ▸ hd)
      simp [wRef, hne]
  rw [hmap] at hl4
  subst hl4
  refine full2_chained_core hs pr rest hnd.2 _ (hs.valid _ _ hsc) ?_ hupd hall
  intro hsy
  simp only [inSync] at hsy
  rw [full2_createW_other pr rest _ _ (fun _ _ he => by cases he)] at hsy
  have : (⟨s.g, s.remote, orc⟩ : Loc).refs.get (.other pr.src) = some sc := hsc
  rw [this] at hsy
  simp only [Bool.and_eq_true] at hsy
  exact hsy.2

end BertE.Full2
