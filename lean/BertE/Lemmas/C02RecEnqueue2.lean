import BertE.Lemmas.C02RecEnqueue
/- C02, recovery of `add_to_queue`, second part: what the remote may look like when the job is interrupted, and
   the evaluation delivered again after the queue reset. Work package `Recovery`; names prefixed `rec_`. -/
namespace BertE.Flow
open BertE.Git

/-! ### plans made of plain pushes, interrupted -/

theorem rec_pushes_cases (g : Graph) (rej : Nat → Ref → Bool) : ∀ (ops : List Op) (i : Nat) (m : RefMap) (x : Ref),
    (∀ op ∈ ops, ∃ ups, op = Op.push ups) →
    (applyOpsAt g rej i m ops).get x = m.get x ∨
    ∃ ups c, Op.push ups ∈ ops ∧ (x, c) ∈ ups ∧ (applyOpsAt g rej i m ops).get x = some c
  | [], _, _, _, _ => Or.inl rfl
  | op :: ops, i, m, x, h => by
    simp only [applyOpsAt]
    obtain ⟨ups, rfl⟩ := h op List.mem_cons_self
    rcases rec_pushes_cases g rej ops (i + 1) (applyOp g (rej i) m (.push ups)) x
      (fun o ho => h o (List.mem_cons_of_mem _ ho)) with h1 | ⟨ups', c, hmem, hc, h1⟩
    · rw [h1]
      simp only [applyOp]
      rcases push_fold_cases g (rej i) ups m x with h2 | ⟨c, hc, h2⟩
      · exact Or.inl h2
      · exact Or.inr ⟨ups, c, List.mem_cons_self, hc, h2⟩
    · exact Or.inr ⟨ups', c, List.mem_cons_of_mem _ hmem, hc, h1⟩

theorem rec_createQ_ops : ∀ (ds : List Dest) (l : Loc), ∀ op ∈ (createQ l ds).2, ∃ d t, op = Op.push [(Ref.q d, t)]
  | [], _, op, h => by simp [createQ] at h
  | d :: ds, l, op, h => by
    simp only [createQ] at h
    cases hq : l.refs.get (.q d) with
    | some _ => rw [hq] at h; exact rec_createQ_ops ds l op h
    | none =>
      cases ht : l.refs.get (.dest d) with
      | none => rw [hq, ht] at h; exact rec_createQ_ops ds l op h
      | some t =>
        rw [hq, ht] at h
        simp only [List.mem_cons] at h
        rcases h with rfl | h
        · exact ⟨d, t, rfl⟩
        · exact rec_createQ_ops ds _ op h

/-- **the interrupted remote of `add_to_queue`**, at every prefix, whatever is refused in each operation: every
    ref is where it was, except that integration branches of the further targets may have received their new
    value, and that queue branches and the queue-integration refs of this pull request may have been written -/
theorem rec_interruptedQ {s : Sys} {pr : PrInfo} {sc : Commit} {p : Plan} {l4 l8 : Loc}
    (hr : rec_QRun s pr sc p l4 l8) (rej : Nat → Ref → Bool) (k : Nat) (x : Ref) :
    (observableAt s p rej k).get x = s.remote.get x ∨
    (∃ d ∈ (s.targets pr.dst).drop 1, x = .w d pr.src ∧ (observableAt s p rej k).get x = l4.refs.get x) ∨
    (∃ d, x = .q d) ∨ (∃ d, x = .qw pr.id d pr.src) := by
  unfold observableAt
  have hall : ∀ op ∈ p.ops, ∃ ups, op = Op.push ups ∧ ∀ rc ∈ ups,
      (∃ d ∈ (s.targets pr.dst).drop 1, rc.1 = .w d pr.src ∧ l4.refs.get rc.1 = some rc.2) ∨
      (∃ d, rc.1 = .q d) ∨ (∃ d, rc.1 = .qw pr.id d pr.src) := by
    intro op hop
    rw [hr.ops] at hop
    rcases List.mem_append.mp hop with hop | hop
    · rcases List.mem_append.mp hop with hop | hop
      · unfold pushWOps at hop
        split at hop
        · cases hop
        · simp only [List.mem_cons, List.not_mem_nil, or_false] at hop
          refine ⟨_, hop, ?_⟩
          intro rc hrc
          obtain ⟨hmem, hget⟩ := tipsOf_get (x := rc.1) (c := rc.2) hrc
          simp only [List.mem_map] at hmem
          obtain ⟨d, hd, hde⟩ := hmem
          exact Or.inl ⟨d, hd, hde.symm, hget⟩
      · obtain ⟨d, t, rfl⟩ := rec_createQ_ops _ _ op hop
        refine ⟨_, rfl, ?_⟩
        intro rc hrc
        simp only [List.mem_cons, List.not_mem_nil, or_false] at hrc
        subst hrc
        exact Or.inr (Or.inl ⟨d, rfl⟩)
    · simp only [List.mem_cons, List.not_mem_nil, or_false] at hop
      refine ⟨_, hop, ?_⟩
      intro rc hrc
      have := tipsOf_mem hrc
      unfold rec_qnames at this
      simp only [List.mem_append, List.mem_map] at this
      rcases this with ⟨d, _, hd⟩ | ⟨d, _, hd⟩
      · exact Or.inr (Or.inl ⟨d, hd.symm⟩)
      · exact Or.inr (Or.inr ⟨d, hd.symm⟩)
  have htake : ∀ op ∈ p.ops.take k, ∃ ups, op = Op.push ups := by
    intro op hop
    obtain ⟨ups, h, _⟩ := hall op (List.mem_of_mem_take hop)
    exact ⟨ups, h⟩
  rcases rec_pushes_cases p.g rej (p.ops.take k) 0 s.remote x htake with h | ⟨ups, c, hmem, hc, h⟩
  · exact Or.inl h
  · obtain ⟨ups', he, hups⟩ := hall _ (List.mem_of_mem_take hmem)
    simp only [Op.push.injEq] at he
    subst he
    rcases hups (x, c) hc with ⟨d, hd, hx, hget⟩ | hq | hqw
    · exact Or.inr (Or.inl ⟨d, hd, hx, by rw [h]; exact hget.symm⟩)
    · exact Or.inr (Or.inr (Or.inl hq))
    · exact Or.inr (Or.inr (Or.inr hqw))

/-! ### the evaluation delivered again after the queue reset -/

/-- The state `sR` in which the pull request is evaluated again, after the job that should have queued it was
    interrupted (state `s'`) and the queues were reset and rebuilt: same branches, destinations and source as in
    the snapshot `s`; the integration branches of the pull request as the interrupted job left them; the pull
    request not queued; and (`q`) **the rebuilt queue branches have the same content as the queue branches had** -
    a destination branch standing for a queue branch that does not exist yet. -/
structure rec_Rebuilt (s : Sys) (pr : PrInfo) (s' sR : Sys) : Prop where
  wf : sR.WF
  devs : sR.devs = s.devs
  ext : Extends s'.g sR.g
  dest : ∀ d, sR.remote.get (.dest d) = s.remote.get (.dest d)
  src : sR.remote.get (.other pr.src) = s.remote.get (.other pr.src)
  w : ∀ d ∈ (s.targets pr.dst).drop 1, sR.remote.get (.w d pr.src) = s'.remote.get (.w d pr.src)
  q : ∀ d ∈ s.targets pr.dst, ∀ a, a < s.g.size → (rec_Qc0 sR.g sR.remote d a ↔ rec_Qc0 s.g s.remote d a)
  fresh : alreadyQueued sR pr = false
  qwfresh : ∀ d ∈ s.targets pr.dst, sR.remote.get (.qw pr.id d pr.src) = none
  tip : rec_QTip sR.g sR.remote

theorem rec_targets_devs {s sR : Sys} (h : sR.devs = s.devs) (d : Dest) : sR.targets d = s.targets d := by
  unfold Sys.targets
  rw [h]

/-- **The queue commits of the evaluation delivered again have the content of the uninterrupted ones.** -/
theorem rec_enqueue_recovery {s : Sys} (hs : s.WF) (hqt : rec_QTip s.g s.remote) (pr : PrInfo)
    (hnaq : alreadyQueued s pr = false) (orc : List Bool) (sel : List Nat) {sc : Commit}
    (hsc : s.remote.get (.other pr.src) = some sc)
    (hU : (planPr s pr .final orc sel).outcome = "Queued") (rej : Nat → Ref → Bool) (k : Nat) {sR : Sys}
    (hreb : rec_Rebuilt s pr (interrupted s (planPr s pr .final orc sel) rej k) sR)
    (orc' : List Bool) (sel' : List Nat) (hR : (planPr sR pr .final orc' sel').outcome = "Queued") :
    ∃ l4 l8 l4R l8R, rec_QRun s pr sc (planPr s pr .final orc sel) l4 l8 ∧
      rec_QRun sR pr sc (planPr sR pr .final orc' sel') l4R l8R ∧
      ∀ d ∈ s.targets pr.dst, ∃ nU nR, l8.refs.get (.qw pr.id d pr.src) = some nU ∧
        l8R.refs.get (.qw pr.id d pr.src) = some nR ∧
        ∀ a, a < s.g.size → (l8.g.le a nU = true ↔ l8R.g.le a nR = true) := by
  obtain ⟨l4, l8, hrU⟩ := rec_planPr_qrun hs hqt pr hnaq orc sel hsc hU
  have hscR : sR.remote.get (.other pr.src) = some sc := by rw [hreb.src]; exact hsc
  obtain ⟨l4R, l8R, hrR⟩ := rec_planPr_qrun hreb.wf hreb.tip pr hreb.fresh orc' sel' hscR hR
  refine ⟨l4, l8, l4R, l8R, hrU, hrR, ?_⟩
  have hT : sR.targets pr.dst = s.targets pr.dst := rec_targets_devs hreb.devs pr.dst
  have hsclt : sc < s.g.size := hs.valid _ _ hsc
  have hx8 : Extends s.g l8.g := hrU.ext1.trans hrU.ext2
  have hextI : Extends l8.g sR.g := by
    have := hreb.ext
    simp only [interrupted] at this
    rw [hrU.pg] at this
    exact this
  have hxR : Extends s.g sR.g := hx8.trans hextI
  have hx4R : Extends l4.g sR.g := hrU.ext2.trans hextI
  -- the first queue commit
  have hF : ∀ a, a < s.g.size → (rec_QFirst sR.g sR.remote sc pr.dst a ↔ rec_QFirst s.g s.remote sc pr.dst a) := by
    intro a ha
    unfold rec_QFirst
    rw [hreb.q pr.dst (by rw [targets_cons]; exact List.mem_cons_self) a ha, hxR.2 a sc hsclt]
  intro d hd
  rw [targets_cons] at hd
  rcases List.mem_cons.mp hd with rfl | hd
  · obtain ⟨n1, h1, _, c1⟩ := hrU.first
    obtain ⟨n1R, h1R, _, c1R⟩ := hrR.first
    refine ⟨n1, n1R, h1, h1R, ?_⟩
    intro a ha
    rw [c1 a ha, c1R a (Nat.lt_of_lt_of_le ha hxR.1)]
    exact (hF a ha).symm
  · obtain ⟨pre, post, hsplit⟩ := List.append_of_mem hd
    have hsplitR : (sR.targets pr.dst).drop 1 = pre ++ d :: post := by rw [hT]; exact hsplit
    obtain ⟨n, hn, _, c⟩ := hrU.further pre d post hsplit
    obtain ⟨nR, hnR, _, cR⟩ := hrR.further pre d post hsplitR
    refine ⟨n, nR, hn, hnR, ?_⟩
    intro a ha
    rw [c a ha, cR a (Nat.lt_of_lt_of_le ha hxR.1)]
    -- the closed form on the rebuilt state is the closed form on the snapshot
    have hinrest : ∀ d' ∈ pre ++ [d], d' ∈ (s.targets pr.dst).drop 1 := fun d' hd' => rec_mem_prefix hsplit hd'
    have hintargets : ∀ d' ∈ pre ++ [d], d' ∈ s.targets pr.dst := by
      intro d' hd'
      rw [targets_cons]
      exact List.mem_cons_of_mem _ (hinrest d' hd')
    have hw4 : ∀ d' ∈ pre ++ [d], ∃ w', l4.refs.get (.w d' pr.src) = some w' ∧ w' < l4.g.size ∧
        (l4.g.le a w' = true → (s.g.le a sc = true ∨
          ∃ d'' ∈ pre ++ [d], Wc s.g s.remote pr.src d'' a ∨ Dc s.g s.remote d'' a)) ∧
        (Wc s.g s.remote pr.src d' a → l4.g.le a w' = true) := by
      intro d' hd'
      obtain ⟨p1, p2, hp12⟩ := List.append_of_mem hd'
      have hsplit' : (s.targets pr.dst).drop 1 = p1 ++ d' :: (p2 ++ post) := by
        rw [hsplit]
        have : pre ++ d :: post = (pre ++ [d]) ++ post := by simp
        rw [this, hp12]; simp
      obtain ⟨w', hw', hcw⟩ := hrU.wcont p1 d' (p2 ++ post) hsplit'
      refine ⟨w', hw', hrU.ok4.valid _ _ hw', ?_, (hcw a ha).1⟩
      intro hle
      rcases (hcw a ha).2 hle with h | ⟨d'', hd'', h⟩
      · exact Or.inl h
      · refine Or.inr ⟨d'', ?_, h⟩
        rw [hp12]
        rcases List.mem_append.mp hd'' with h' | h'
        · exact List.mem_append_left _ h'
        · simp only [List.mem_cons, List.not_mem_nil, or_false] at h'
          subst h'; simp
    -- the integration branch in the rebuilt state: as in the snapshot, or as pushed by the interrupted job
    have hwR : ∀ d' ∈ pre ++ [d], sR.remote.get (.w d' pr.src) = s.remote.get (.w d' pr.src) ∨
        sR.remote.get (.w d' pr.src) = l4.refs.get (.w d' pr.src) := by
      intro d' hd'
      rw [hreb.w d' (hinrest d' hd')]
      simp only [interrupted]
      rcases rec_interruptedQ hrU rej k (.w d' pr.src) with h | ⟨_, _, _, h⟩ | ⟨_, he⟩ | ⟨_, he⟩
      · exact Or.inl h
      · exact Or.inr h
      · cases he
      · cases he
    unfold rec_QFinal
    constructor
    · rintro (h | ⟨d', hd', h | h⟩)
      · exact Or.inl ((hF a ha).mpr h)
      · exact Or.inr ⟨d', hd', Or.inl ((hreb.q d' (hintargets d' hd') a ha).mpr h)⟩
      · obtain ⟨w', hw', hw'lt, _, hB⟩ := hw4 d' hd'
        rcases hwR d' hd' with hsame | hnew
        · exact Or.inr ⟨d', hd', Or.inr (by
            obtain ⟨w0, hw0, hle⟩ := h
            exact ⟨w0, by rw [hsame]; exact hw0, hxR.le (hs.valid _ _ hw0) hle⟩)⟩
        · exact Or.inr ⟨d', hd', Or.inr ⟨w', by rw [hnew]; exact hw', hx4R.le hw'lt (hB h)⟩⟩
    · rintro (h | ⟨d', hd', h | ⟨w, hw, hle⟩⟩)
      · exact Or.inl ((hF a ha).mp h)
      · exact Or.inr ⟨d', hd', Or.inl ((hreb.q d' (hintargets d' hd') a ha).mp h)⟩
      · rcases hwR d' hd' with hsame | hnew
        · rw [hsame] at hw
          exact Or.inr ⟨d', hd', Or.inr ⟨w, hw, by rw [← hxR.2 a w (hs.valid _ _ hw)]; exact hle⟩⟩
        · obtain ⟨w', hw', hw'lt, hA, _⟩ := hw4 d' hd'
          rw [hnew, hw'] at hw
          simp only [Option.some.injEq] at hw
          subst hw
          rw [hx4R.2 a w' hw'lt] at hle
          rcases hA hle with h | ⟨d'', hd'', h | h⟩
          · exact Or.inl (Or.inr h)
          · exact Or.inr ⟨d'', hd'', Or.inr h⟩
          · exact Or.inr ⟨d'', hd'', Or.inl (rec_Dc_Qc0 hs.g hqt h)⟩

end BertE.Flow
